"""C19 — the configuration store is a last-writer-wins nested map; refresh restores the defaults.

Oracle: `vf/refmodels/config_model.py` (abstract, spelling-normalised) stepped in lock-step with the real
`quantem.core.config` over bounded-exhaustive and random histories.  After every operation the store is
read back through `config.get` (every schema key in both spellings) and compared with the model; the whole
dict is compared too (nothing else may have changed, no key may exist in two spellings).  Histories run on
private `config=`/`defaults=` objects (empty and pre-seeded) and on the module globals, which are restored
in place after each history.  `with config.set(...)` blocks are real `with` statements (nested by recursion).
"""
from __future__ import annotations

import collections
import contextlib
import copy
import io
import itertools
import json
import os
import pathlib
import subprocess
import sys
import types
from collections.abc import Mapping, MutableMapping

import numpy as np
import yaml

from vf.core import HarnessError
from vf.refmodels.config_model import MISSING, ConfigModel, DeviceRejected, OutOfDomain, cp, norm_key

PROPERTY = "C19"
LEVEL = "exploration"
ANCHOR_FILES = ["quantem/core/config.py"]
RULE = (
    "histories over a 24-operation alphabet (set in mapping/keyword/dotted form with both key spellings, scalar/list/"
    "nested-mapping values; update_defaults flat and nested; two user configuration files written into the private QUANTEM_CONFIG "
    "directory; refresh; get present/absent; with-blocks incl. nesting and "
    "an exception in the body; device requests) enumerated exhaustively to depth 3 (quick) / 4 (thorough) from three "
    "start states (empty private store, pre-seeded private store, module globals) plus seeded random histories of "
    "20 operations; one case = all enumerated histories sharing a 2-operation prefix, or a batch of random histories. "
    "A history is non-trivial when a write to a key whose name has two spellings is followed by a read of that key "
    "through the other spelling, or by a refresh; a case is non-trivial when it contains such a history; "
    "distinct = (start state, sequence of operation kinds); histories are also counted individually "
    "(coverage.histories, coverage.distinct_nontrivial_histories); plus wide / deep mapping histories (thousands of sibling keys, "
    "100+ levels), neutral public calls after every operation of every other random history, QUANTEM_* environment variables set "
    "around refreshes, Mapping types for set, and fresh-interpreter cases that locate user files through QUANTEM_CONFIG / HOME; "
    "value containers: the mappings given to update_defaults (half of the random histories, the deep family, and the bounded-exhaustive "
    "'maptypes' cases = every 2-operation prefix that contains an update_defaults, followed by refresh and two sets, from all three start "
    "states, under 9 container schemes) are built from dict, OrderedDict, defaultdict, MappingProxyType, ChainMap (one layer / two layers with "
    "shadowed entries), UserDict, a read-only Mapping class and a MutableMapping class, a different type at every nesting depth, mixed with "
    "plain dicts; the same types as the argument of set and as the argument of the neutral update() of the store with a copy of itself"
)
ASSUMPTIONS = [
    "QUANTEM_CONFIG is the worker's private directory (under ctx.tmp, empty at start and after every history; no environment variable is changed); histories write user configuration files (*.yaml, *.yml, *.json: partial nested sections, both key spellings, block and flow style, several files, empty / comment-only / null / {} files) into it and call refresh() (reads that directory), refresh(path=<dir as str or Path>), refresh(path=<one file>) and refresh(path=<missing>)",
    "expected store after refresh = fold of the accumulated defaults, then the user files merged on top by nested update (siblings of an overridden key keep their defaults), then later sets; files that are present at the same time never set the same leaf (which file wins is a convention the property does not state); files whose top level is not a mapping or that are not valid yaml make refresh raise on the unchanged tree and are not generated; 'device' in a file only as cpu/CPU",
    "device expectations come from torch.cuda/mps availability of the machine running the check (CPU-only sandbox: every cuda/mps/gpu/index request must be rejected)",
    "malformed device strings are drawn from strings without the substring 'cpu' (check_key_val accepts any string containing it, by design)",
    "set with a mapping value is generated only onto an absent namespace (onto a populated one it replaces the namespace, dask semantics, not addressed by the property); a mapping never holds both spellings of one key with nested-mapping values",
    "inside a with-block no operation writes below a namespace that the block itself created (the block is closed first); restoring removes the topmost path component that did not exist",
    "a set call that contains a rejected device among other keys may or may not have applied the other keys (only the device is judged); such calls are not used as context managers",
    "the key 'device' is only used at top level (update() validates it at any depth)",
    "QUANTEM_* environment variables (incl. QUANTEM_DEVICE=cuda:7) are set around 30% of the random refreshes and restored: they are not a configuration source (collect_env is not used by refresh), so they must not change the result; QUANTEM_CONFIG / HOME are exercised in fresh interpreters (import_env cases) whose store after import and after refresh() must equal library defaults + user files",
    "neutral calls (get with default / override_with, repr, deepcopy, merge, collect, collect_yaml, validate_device('cpu'), get_device, canonical_name, empty set / with / update_defaults, update of the store with a merged copy of itself, setting a leaf to the value get returns, write / yaml dump) are made after every operation of every other random history and must not change what get returns",
    "set accepts any Mapping as its argument (dict, OrderedDict, MappingProxyType, ChainMap with one / two layers, UserDict, a read-only Mapping class, a MutableMapping class are generated; item order is the mapping's iteration order); update_defaults needs a mutable mapping at top level on the unchanged tree (it assigns into it): dict, OrderedDict, defaultdict, ChainMap, UserDict, MutableMapping class at top level, all nine types (also the read-only ones) for nested values at every depth, which update()/merge()/refresh() treat as namespaces through the Mapping protocol (isinstance(v, Mapping)); the model is stepped with the plain-dict spelling of the same content (shadowed lower-layer ChainMap entries are not content)",
    "a nested non-dict Mapping as a *value* of set (mapping or keyword form) is not generated: the unchanged code stores the object itself as an opaque value (read-only ones then reject writes below, a later update_defaults replaces it) -- it is not treated as a namespace there",
    "wide / deep cases: 3000..20000 sibling keys with alternating spellings through set, update_defaults, with-blocks, user files and refresh; nesting depth 120..180 (far below the interpreter recursion limit that bounds the recursive update on the unchanged tree)",
]
BUDGET = {"quick": {"soft_s": 300}, "thorough": {"soft_s": 1200}}
MIN_EVALUATIONS = {"quick": 500, "thorough": 1500}
REQUIRED_COUNTERS = ["eval:neutral_call_changed_state", "eval:user_directory_from_environment", "eval:get_vs_model", "eval:refresh_vs_defaults", "eval:refresh_vs_defaults_and_user_files", "eval:with_protocol", "eval:with_restore", "eval:device_rejected_unchanged", "eval:spelling_single_entry"]
EXHAUSTIVE = {"quick": False, "thorough": False}  # bounded-exhaustive part + random part

STORES = ["private", "seeded", "global"]

# ------------------------------------------------------------------------------------------------
# schema: roles -> names (hyphen spelling, underscore spelling)

SCHEMAS = {
    "private": {"L1": ("max-iter", "max_iter"), "L0": "alpha", "NS1": "io", "N1L": ("chunk-size", "chunk_size"), "N1P": "mode",
                "NS2": ("viz-opts", "viz_opts"), "N2L": ("color-map", "color_map"), "N2S": ("sub-ns", "sub_ns"), "N2SL": ("line-width", "line_width")},
    "global": {"L1": ("dtype-real", "dtype_real"), "L0": "verbose", "NS1": "cupy", "N1L": ("fft-cache-size", "fft_cache_size"), "N1P": "mode",
               "NS2": ("vf-opts", "vf_opts"), "N2L": ("color-map", "color_map"), "N2S": ("sub-ns", "sub_ns"), "N2SL": ("line-width", "line_width")},
}
SCHEMAS["seeded"] = SCHEMAS["private"]
H, U = 0, 1


def alphabet(store):
    s = SCHEMAS[store]
    L1, L0, NS1, N1L, N1P, NS2, N2L, N2S, N2SL = (s[k] for k in ("L1", "L0", "NS1", "N1L", "N1P", "NS2", "N2L", "N2S", "N2SL"))
    return [
        {"op": "set", "form": "map", "items": [[L1[H], 1]]},
        {"op": "file", "name": "10-user.yaml", "content": {NS1: {N1L[H]: 40}, L1[H]: 41, NS2[U]: {N2L[H]: "u"}}},
        {"op": "set", "form": "kw", "items": [[L1[U], 10]]},
        {"op": "set", "form": "map", "items": [[NS1 + "." + N1L[H], 4]]},
        {"op": "set", "form": "kw", "items": [[NS1 + "__" + N1L[U], 5]]},
        {"op": "set", "form": "map", "items": [[NS2[U] + "." + N2S[H] + "." + N2SL[U], 6]]},
        {"op": "set", "form": "map", "nested": True, "items": [[NS2[H], {N2L[H]: "m"}]]},
        {"op": "ud", "new": {L1[H]: 10}},
        {"op": "ud", "new": {L1[U]: 11, L0: "a"}},
        {"op": "ud", "new": {NS1: {N1L[U]: 12, N1P: "r"}}},
        {"op": "ud", "new": {NS2[H]: {N2S[U]: {N2SL[H]: 13}}, NS1: {N1L[H]: 14}}},
        {"op": "ud", "new": {L1[U]: 1}},
        {"op": "refresh"},
        {"op": "get", "key": NS2[U] + "." + N2L[H], "default": "dflt"},
        {"op": "file", "name": "20-more.yml", "content": {NS1: {N1P: "y"}, NS2[H]: {N2S[U]: {N2SL[U]: 42}}}},
        {"op": "with", "form": "map", "items": [[L1[U], 20], [NS1 + "." + N1P, "w"]]},
        {"op": "with", "form": "kw", "items": [[NS2[U] + "__" + N2L[U], "c"]]},
        {"op": "end"},
        {"op": "raise"},
        {"op": "device", "via": "set_device", "dev": "CPU"},
        {"op": "device", "via": "set_device", "dev": "cuda:7"},
        {"op": "set", "form": "map", "items": [[L0, "z"], ["device", "tpu"]]},
        {"op": "device", "via": "validate", "dev": 3},
        {"op": "set", "form": "map", "items": [[NS1 + "." + N1P, [1, 2]], [L1[H], 2], [L1[U], 3]]},
    ]


NALPHA = 24
SEED_PROLOGUE = lambda s: [  # noqa: E731  (start state "seeded": built through the real API, in lock-step)
    {"op": "ud", "new": {s["L1"][U]: 0, s["NS1"]: {s["N1L"][H]: 0, s["N1P"]: "r"}, "device": "cpu"}},
    {"op": "ud", "new": {s["NS2"][H]: {s["N2L"][U]: "v", s["N2S"][H]: {s["N2SL"][H]: 1}}}},
    {"op": "set", "form": "map", "items": [[s["L0"], "user"], [s["NS1"] + "." + s["N1L"][U], 7]]},
]

DEVICES = ["cpu", "CPU", "cuda", "cuda:0", "cuda:7", "gpu", "GPU", "mps", 0, 3, -1, 1.5, "tpu", "cuda:x", None, "", "xpu:0",
           {"torch_device": "cpu"}, {"torch_device": "cuda:0"}, {"torch_device": "cuda"}, {"torch_device": "mps"}, {"torch_device": "meta"}]


class _ROMap(Mapping):
    """a user-defined read-only Mapping (not a dict subclass)"""

    def __init__(self, d):
        self._d = dict(d)

    def __getitem__(self, k):
        return self._d[k]

    def __iter__(self):
        return iter(self._d)

    def __len__(self):
        return len(self._d)

    def __repr__(self):
        return "_ROMap(%r)" % (self._d,)


class _MutMap(MutableMapping):
    """a user-defined MutableMapping (not a dict subclass)"""

    def __init__(self, d):
        self._d = dict(d)

    def __getitem__(self, k):
        return self._d[k]

    def __setitem__(self, k, v):
        self._d[k] = v

    def __delitem__(self, k):
        del self._d[k]

    def __iter__(self):
        return iter(self._d)

    def __len__(self):
        return len(self._d)

    def __repr__(self):
        return "_MutMap(%r)" % (self._d,)


MAPCODES = ["dict", "proxy", "ordered", "chain", "user", "defaultdict", "ro", "chain2", "mu"]
TOPCODES = [c for c in MAPCODES if c not in ("proxy", "ro")]  # update_defaults assigns into its argument


def make_mapping(code, d):
    """the content of the plain dict d (same items, same iteration order) held by another Mapping type"""
    if code == "dict":
        return d
    if code == "ordered":
        return collections.OrderedDict(d)
    if code == "defaultdict":
        return collections.defaultdict(dict, d)
    if code == "proxy":
        return types.MappingProxyType(d)
    if code == "chain":
        return collections.ChainMap({}, d)
    if code == "chain2":  # two layers: the upper one holds the first half, the lower one everything (first half shadowed)
        keys = list(d)
        first = keys[: (len(keys) + 1) // 2]
        lower = {k: ("<shadowed by the upper layer>" if k in first else d[k]) for k in keys}
        return collections.ChainMap({k: d[k] for k in first}, lower)
    if code == "user":
        return collections.UserDict(d)
    if code == "ro":
        return _ROMap(d)
    if code == "mu":
        return _MutMap(d)
    raise HarnessError("unknown mapping type %r" % (code,))


def wrap_tree(d, wrap):
    """plain nested dict -> the same content with wrap['top'] as the outer container and the types wrap['nested']
    (cycled, depth-first pre-order) for the nested mappings"""
    if not wrap:
        return d
    codes = itertools.cycle(wrap.get("nested") or ["dict"])

    def rec(x):
        out = {}
        for k, v in x.items():
            if isinstance(v, dict):
                c = next(codes)
                out[k] = make_mapping(c, rec(v))
            else:
                out[k] = v
        return out

    return make_mapping(wrap.get("top", "dict"), rec(d))


def scheme_wrap(k, shift=0):
    k = (k + shift) % len(MAPCODES)
    return {"top": TOPCODES[k % len(TOPCODES)], "nested": MAPCODES[k:] + MAPCODES[:k]}


UD_ALPHA = [7, 8, 9, 10, 11]  # alphabet entries that are update_defaults
MAPTYPE_TAIL = [12, 3, 5]  # refresh, then a set below each of the two namespaces


def plan(tier, seed):
    specs = []
    depth = 3 if tier == "quick" else 4
    for store in STORES:
        for a, b in itertools.product(range(NALPHA), repeat=2):
            specs.append({"kind": "exh", "store": store, "prefix": [a, b], "depth": depth})
    nrand, per = (360, 10) if tier == "quick" else (12000, 40)
    for r in range(nrand):
        specs.append({"kind": "rand", "store": STORES[r % 3], "n": per, "len": 20})
    q = tier == "quick"
    for j, fam in enumerate(["wide_set", "wide_defaults_files", "deep"]):
        for r in range(2 if q else 12):
            store = ["private", "global"][r % 2]
            specs.append({"kind": "wide_deep", "store": store, "family": fam, "width": [3000, 20000][r % 2] if q else int(2000 + 4000 * r), "depth": [120, 180][r % 2] if q else 60 + 10 * r, "neutral": bool(r % 2)})
    for r in range(2 if q else 6):
        specs.append({"kind": "import_env", "store": "fresh_interpreter", "how": ["QUANTEM_CONFIG", "HOME"][r % 2], "rep": r})
    for store in STORES:
        for k in range(len(MAPCODES)):
            specs.append({"kind": "maptypes", "store": store, "scheme": k})
    for sp in specs:  # rare kinds carry required monitors: never dropped by the soft time budget
        if sp["kind"] in ("wide_deep", "import_env", "maptypes"):
            sp["_must_run"] = True
    # interleave so that every worker sees all kinds early (soft budget cuts the tail, not a kind)
    rng = np.random.default_rng([seed, 19, 7])
    order = rng.permutation(len(specs))
    return [specs[i] for i in order]


# ------------------------------------------------------------------------------------------------


def _device_rule_factory(torch):
    cuda = bool(torch.cuda.is_available())
    ncuda = int(torch.cuda.device_count()) if cuda else 0
    mps = bool(hasattr(torch, "mps") and torch.mps.is_available())

    def rule(dev):
        """(accepted, normalised string) for a device request, from what the hardware offers"""
        kind, index = None, None
        if dev is None:
            kind = "cuda" if cuda else "mps" if mps else "cpu"
        elif isinstance(dev, torch.device):
            kind, index = dev.type, dev.index
        elif isinstance(dev, bool):
            return False, None
        elif isinstance(dev, int):
            if dev < 0:
                return False, None
            kind, index = "cuda", dev
        elif isinstance(dev, str):
            s = dev.lower()
            if s == "cpu":
                kind = "cpu"
            elif s == "gpu":
                kind = "cuda" if cuda else "mps" if mps else None
            elif s == "mps":
                kind = "mps"
            elif s == "cuda":
                kind = "cuda"
            elif s.startswith("cuda:") and s[5:].isdigit():
                kind, index = "cuda", int(s[5:])
            else:
                return False, None
        else:
            return False, None
        if kind == "cpu":
            return True, "cpu"
        if kind == "cuda" and cuda:
            if index is None:
                index = int(torch.cuda.current_device())
            return (True, "cuda:%d" % index) if index < ncuda else (False, None)
        if kind == "mps" and mps:
            return True, "mps"
        return False, None

    return rule, {"cuda": cuda, "n_cuda": ncuda, "mps": mps}


def setup(ctx):
    import torch

    from quantem.core import config as C

    st = ctx.state
    st["C"], st["torch"] = C, torch
    st["rule"], avail = _device_rule_factory(torch)
    p = os.path.realpath(str(C.PATH))
    if not p.startswith(os.path.realpath(ctx.tmp) + os.sep):
        raise HarnessError("the user configuration directory %s is not private to this worker (%s)" % (p, ctx.tmp))
    os.makedirs(p, exist_ok=True)
    if os.listdir(p):
        raise HarnessError("QUANTEM_CONFIG directory %s is not empty" % p)
    st["userdir"] = p
    if not isinstance(C.config, dict) or not isinstance(C.defaults, list):
        raise HarnessError("config/defaults are not the documented dict/list")
    st["snap"] = (copy.deepcopy(C.config), [copy.deepcopy(dict(d)) for d in C.defaults])
    st["alpha"] = {s: alphabet(s) for s in STORES}
    st["evidence_extra"] = {"device_availability": avail}
    st["hist_sigs"] = set()


def _restore_globals(st):
    C = st["C"]
    cfg, dfl = st["snap"]
    C.config.clear()
    C.config.update(cp(cfg))
    C.defaults[:] = [cp(d) for d in dfl]


def canon(v):
    """type-aware canonical form with spelling-normalised mapping keys"""
    if isinstance(v, Mapping):
        out = {}
        for k, x in v.items():
            out.setdefault(norm_key(k), []).append(canon(x))
        return ("map", tuple(sorted((k, tuple(vs)) for k, vs in out.items())))
    if isinstance(v, (list, tuple)):
        return (type(v).__name__, tuple(canon(x) for x in v))
    if v is MISSING:
        return ("missing",)
    return (type(v).__name__, repr(v))


def canon_model(v):
    if isinstance(v, dict):
        return ("map", tuple(sorted((k, (canon_model(x),)) for k, x in v.items())))
    return canon(v)


def same(r, m):
    """real value (any key spelling) equals model value (normalised keys); type-aware on leaves"""
    if isinstance(r, Mapping):
        if not isinstance(m, dict) or len(r) != len(m):
            return False
        for k, v in r.items():
            nk = k.replace("-", "_") if isinstance(k, str) else k
            if nk not in m or not same(v, m[nk]):
                return False
        return True
    if isinstance(m, dict):
        return False
    if r is MISSING or m is MISSING:
        return r is m
    return type(r) is type(m) and r == m


class _Body(Exception):
    pass


class Abort(Exception):
    pass


class Runner:
    def __init__(self, ctx, store, tag):
        st = ctx.state
        self.ctx, self.C, self.torch, self.store = ctx, st["C"], st["torch"], store
        self.tag = tag
        C = self.C
        if store == "global":
            self.cfg, self.dfl = C.config, C.defaults
            self.kw_c, self.kw_cd = {}, {}
            self.model = ConfigModel(C.config, C.defaults, st["rule"])
        else:
            self.cfg, self.dfl = {}, []
            self.kw_c, self.kw_cd = {"config": self.cfg}, {"config": self.cfg, "defaults": self.dfl}
            self.model = ConfigModel({}, [], st["rule"])
        self.schema = SCHEMAS[store]
        self.spell = {}
        self._learn_spellings(self.cfg, ())
        self.probes = self._probe_keys()
        self.kinds = []
        self.nontrivial = False
        self.wrote_spelled = False  # some write used a key that has two spellings
        self.nops = 0
        self.neutral = None  # numpy Generator: make a state-neutral public call after every operation
        self.userdir = st["userdir"]
        self.files = {}  # user configuration files currently on disk: name -> mapping (or None for an empty file)

    # ---- bookkeeping ------------------------------------------------------------------------
    def _learn_spellings(self, d, prefix):
        if isinstance(d, Mapping):
            for k, v in d.items():
                p = prefix + (norm_key(k),)
                self.spell.setdefault(p, set()).add(k)
                self._learn_spellings(v, p)

    def _note_write(self, key, value=None):
        parts = key.split(".")
        p = ()
        for raw in parts:
            p = p + (norm_key(raw),)
            self.spell.setdefault(p, set()).add(raw)
            if "-" in raw or "_" in raw:
                self.wrote_spelled = True
        if isinstance(value, Mapping):
            for k, v in value.items():
                self._note_write(key + "." + k, v)

    def _mixed(self, path):
        return any(len(self.spell.get(tuple(path[: i + 1]), ())) > 1 for i in range(len(path)))

    def _probe_keys(self):
        s = self.schema

        def both(x):
            return [x] if isinstance(x, str) else list(x)

        keys = []
        keys += both(s["L1"]) + [s["L0"], s["NS1"], "device"]
        keys += both(s["NS2"])
        for a in both(s["N1L"]) + [s["N1P"]]:
            keys.append(s["NS1"] + "." + a)
        for ns in both(s["NS2"]):
            for a in both(s["N2L"]) + both(s["N2S"]):
                keys.append(ns + "." + a)
        keys.append(s["NS2"][H] + "." + s["N2S"][U] + "." + s["N2SL"][H])
        keys.append(s["NS2"][U] + "." + s["N2S"][H] + "." + s["N2SL"][U])
        if self.store == "global":
            keys += ["dtype_complex", "dtype-complex", "precision", "viz.real_space_units", "viz.real-space-units", "viz.colors.set",
                     "warnings.suppress-all-", "warnings.suppress_all_", "mkl.threads", "has_torch", "has-torch"]
        return keys

    def fields(self, **kw):
        f = {"store": self.store, "last_op": self.kinds[-1] if self.kinds else "start"}
        f.update(kw)
        return f

    # ---- reading the real store --------------------------------------------------------------
    def real_get(self, key, **kw):
        try:
            return self.C.get(key, **kw, **self.kw_c)
        except (KeyError, TypeError, IndexError):
            return MISSING

    def compare(self, mechanism, phase=""):
        """read everything back through get (both spellings) and compare with the model"""
        ctx, m = self.ctx, self.model
        bad = None
        for key in self.probes:
            r = self.real_get(key)
            e = m.get(key)
            if not same(r, e):
                if isinstance(r, Mapping) and isinstance(e, dict):
                    sub = _first_diff(r, e, key + ".")  # localise the differing leaf (classifier fields)
                    if sub:
                        key, r, e = sub, self.real_get(sub), m.get(sub)
                bad = (key, r, e)
                break
        if bad is None:
            # the whole store, spelling-normalised (nothing else changed)
            if not same(self.cfg, m.cfg):
                diff = _first_diff(self.cfg, m.cfg)
                bad = (diff, self.real_get(diff) if diff else None, m.get(diff) if diff else None)
        path = ConfigModel.path(bad[0]) if bad and bad[0] else ()
        ctx.check(bad is None, mechanism, lambda: "%s after %s%s: get(%r) = %r, model says %r; history=%s" % (self.store, self.kinds[-1] if self.kinds else "start", phase, bad[0], bad[1], bad[2], self.tag), **self.fields(phase=phase, spelling_mixed=self._mixed(path), key_depth=len(path)))
        dup = _dup_spelling(self.cfg)
        ctx.check(dup is None, "spelling_single_entry", lambda: "both spellings stored side by side: %r; history=%s" % (dup, self.tag), **self.fields(phase=phase))
        if bad is not None or dup is not None:
            raise Abort()
        # non-trivial rule: a key with two spellings was written and has now been read back through both
        if self.wrote_spelled:
            self.nontrivial = True

    # ---- operations ---------------------------------------------------------------------------
    def _dev(self, tok):
        if isinstance(tok, dict):
            return self.torch.device(tok["torch_device"])
        return tok

    def _set_args(self, op):
        items = list({k: (self._dev(v) if k == "device" else cp(v)) for k, v in op["items"]}.items())  # a mapping: a repeated key keeps its first position and its last value
        if op["form"] == "kw":
            return items, None, dict(items)
        arg = dict(items)
        mt = op.get("mapping_type")
        if mt == "ordered":
            arg = collections.OrderedDict(items)
        elif mt:
            arg = make_mapping(mt, arg)
        return items, arg, {}

    def _model_items(self, op, items):
        return [(k.replace("__", ".") if op["form"] == "kw" else k, v) for k, v in items]

    def op_set(self, op):
        ctx, C, m = self.ctx, self.C, self.model
        if op.get("nested"):
            # domain: only onto an absent namespace
            key = op["items"][0][0]
            if m.get(key) is not MISSING:
                return self.op_get({"op": "get", "key": key})
        items, arg, kw = self._set_args(op)
        mitems = self._model_items(op, items)
        has_dev = any(k == "device" for k, _ in mitems)
        dev_before = self.real_get("device")
        saved = cp(m.cfg) if has_dev else None
        rejected = False
        try:
            m.set(mitems)
        except DeviceRejected:
            rejected = True
            m.cfg = saved  # judged key by key below
        try:
            C.set(arg, **kw, **self.kw_c) if arg is not None else C.set(**kw, **self.kw_c)
            raised = None
        except (ValueError, RuntimeError, TypeError) as e:
            raised = e
        for k, v in mitems:
            self._note_write(k, v)
        if has_dev:
            self._judge_device(op["items"], rejected, raised, dev_before, "set")
            if rejected:
                # other keys of the same call: whether they were applied is not stated -> old or new, adopt what happened
                allowed = {}
                for k, v in mitems:
                    if k != "device":
                        allowed.setdefault(ConfigModel.path(k), []).append((k, v))
                for p, kvs in allowed.items():
                    k = kvs[0][0]
                    r = self.real_get(k)
                    old = m.get(k)
                    hit = [v for _, v in kvs if canon(r) == canon(v)]
                    ctx.check(bool(hit) or canon(r) == canon_model(old), "rejected_call_other_keys", lambda: "key %r holds %r after a rejected call (neither the old value %r nor a new one)" % (k, r, old), **self.fields())
                    if hit and canon(r) != canon_model(old):
                        m.set([(k, hit[0])])
        elif raised is not None:
            raise raised
        self.compare("get_vs_model")

    def _judge_device(self, what, rejected, raised, dev_before, via):
        ctx = self.ctx
        dev_after = self.real_get("device")
        f = self.fields(via=via, request_kind=_devkind(what))
        if rejected:
            ctx.check(raised is not None, "device_request_rejected", lambda: "%s: unavailable/malformed device request %r was accepted, device now %r" % (self.store, what, dev_after), **f)
            ctx.check(canon(dev_after) == canon(dev_before), "device_rejected_unchanged", lambda: "%s: rejected request %r changed the stored device %r -> %r" % (self.store, what, dev_before, dev_after), **f)
        else:
            ctx.check(raised is None, "device_request_accepted", lambda: "%s: available device request %r raised %r" % (self.store, what, raised), **f)
            exp = self.model.get("device")
            ctx.check(canon(dev_after) == canon_model(exp), "device_value", lambda: "%s: device after %r is %r, expected %r" % (self.store, what, dev_after, exp), **f)

    def op_device(self, op):
        ctx, C, m = self.ctx, self.C, self.model
        dev = self._dev(op["dev"])
        ok, norm = m.device_rule(dev)
        before = self.real_get("device")
        via = op["via"]
        if via == "validate":
            try:
                res, raised = C.validate_device(dev), None
            except (ValueError, RuntimeError, TypeError) as e:
                res, raised = None, e
            f = self.fields(via=via, request_kind=_devkind(op["dev"]))
            if ok:
                ctx.check(raised is None and isinstance(res, tuple) and res[0] == norm, "validate_device_value", lambda: "validate_device(%r) -> %r / %r, expected %r" % (dev, res, raised, norm), **f)
            else:
                ctx.check(raised is not None, "device_request_rejected", lambda: "validate_device(%r) returned %r for an unavailable/malformed device" % (dev, res), **f)
            ctx.check(canon(self.real_get("device")) == canon(before), "device_rejected_unchanged", "validate_device changed the stored device", **f)
        else:
            try:
                if via == "set_device" and self.store == "global":
                    C.set_device(dev)
                elif via == "ud":
                    C.update_defaults({"device": dev}, **self.kw_cd)
                else:
                    C.set({"device": dev}, **self.kw_c)
                raised = None
            except (ValueError, RuntimeError, TypeError) as e:
                raised = e
            try:
                if via == "ud":
                    m.update_defaults({"device": dev})
                else:
                    m.set([("device", dev)])
            except DeviceRejected:
                pass
            self._judge_device(op["dev"], not ok, raised, before, via)
        self.compare("get_vs_model")

    def op_ud(self, op):
        new = cp(op["new"])
        self.model.update_defaults(cp(new))  # the model sees the content as plain dicts
        if op.get("wrap"):
            new = wrap_tree(new, op["wrap"])
            self.ctx.count("update_defaults_with_other_mapping_types")
        self.C.update_defaults(new, **self.kw_cd)
        for k, v in op["new"].items():
            self._note_write(k, v)
        self.compare("get_vs_model")

    def op_file(self, op):
        """the user edits a configuration file in the (worker-private) configuration directory"""
        name, content = op["name"], op.get("content")
        path = os.path.join(self.userdir, name)
        if content == "delete":
            if name in self.files:
                os.unlink(path)
                del self.files[name]
            return
        with open(path, "w") as f:
            if isinstance(content, dict):
                if name.endswith(".json"):
                    json.dump(content, f)
                else:
                    yaml.safe_dump(content, f, default_flow_style=bool(op.get("flow")))
                self.files[name] = content
                for k, v in content.items():
                    self._note_write(k, v)
            else:
                f.write({"empty": "", "comment": "# nothing configured yet\n", "null": "null\n" if not name.endswith(".json") else "null", "emptymap": "{}\n"}[content])
                self.files[name] = None
        self.ctx.count("user_files_written")

    def cleanup_files(self):
        for name in list(self.files):
            try:
                os.unlink(os.path.join(self.userdir, name))
            except OSError:
                pass
        self.files.clear()

    def op_refresh(self, op):
        how = op.get("how", "default")
        kw = dict(self.kw_cd)
        if how == "default":  # the process-wide user directory (QUANTEM_CONFIG)
            used = list(self.files.items())
        elif how == "path_dir":
            kw["path"] = self.userdir if op.get("as_str", True) else pathlib.Path(self.userdir)
            used = list(self.files.items())
        elif how == "path_file":
            kw["path"] = os.path.join(self.userdir, op["name"])
            used = [(op["name"], self.files[op["name"]])] if op["name"] in self.files else []
        else:  # a path that does not exist: no user files
            kw["path"] = os.path.join(self.userdir, "no-such-dir")
            used = []
        self.model.refresh(used)
        env = op.get("env") or {}
        saved = {k: os.environ.get(k) for k in env}
        try:
            os.environ.update(env)  # QUANTEM_* variables are not a configuration source: refresh must ignore them
            self.C.refresh(**kw)
        finally:
            for k, v in saved.items():
                if v is None:
                    os.environ.pop(k, None)
                else:
                    os.environ[k] = v
        if env:
            self.ctx.count("refresh_with_env_vars")
        if any(m for _, m in used):
            self.ctx.count("refresh_with_user_files")
            self.compare("refresh_vs_defaults_and_user_files", phase=":" + how)
        else:
            self.compare("refresh_vs_defaults")

    def op_get(self, op):
        ctx, C, m = self.ctx, self.C, self.model
        key = op["key"]
        e = m.get(key)
        if "default" in op:
            r = C.get(key, op["default"], **self.kw_c)
            exp = op["default"] if e is MISSING else e
            ctx.check(canon(r) == (canon(exp) if e is MISSING else canon_model(exp)), "get_default", lambda: "get(%r, default) = %r, model %r" % (key, r, exp), **self.fields())
        else:
            try:
                r = C.get(key, **self.kw_c)
            except (KeyError, TypeError, IndexError):
                r = MISSING
            ctx.check(canon(r) == canon_model(e), "get_vs_model", lambda: "get(%r) = %r, model %r" % (key, r, e), **self.fields(phase="explicit", spelling_mixed=self._mixed(ConfigModel.path(key)), key_depth=len(ConfigModel.path(key))))
        self.compare("get_vs_model")

    # ---- interpreter --------------------------------------------------------------------------
    def _touches(self, op):
        k = op["op"]
        if k == "set":
            return [ConfigModel.path(x.replace("__", ".") if op["form"] == "kw" else x) for x, _ in op["items"]]
        if k == "ud":
            out = []

            def walk(d, p):
                for kk, v in d.items():
                    q = p + (norm_key(kk),)
                    if isinstance(v, Mapping):
                        walk(v, q)
                    else:
                        out.append(q)

            walk(op["new"], ())
            return out
        if k == "refresh":  # everything the rebuilt store will contain: accumulated defaults and user files
            out = []

            def walk2(d, p):
                for kk, v in d.items():
                    q = p + (norm_key(kk),)
                    if isinstance(v, Mapping):
                        walk2(v, q)
                    else:
                        out.append(q)

            walk2(self.model.merged_defaults(), ())
            for m in self.files.values():
                if m:
                    walk2(m, ())
            return out
        return []

    def _conflict(self, op):
        ins = self.model.inserted_prefixes()
        if not ins:
            return False
        for p in self._touches(op):
            for q in ins:
                if len(q) < len(p) and tuple(p[: len(q)]) == tuple(q):
                    return True
        return False

    def run(self, ops):
        self.ops, self.i = ops, 0
        try:
            self._seq(0)
        except Abort:
            return False
        except OutOfDomain:
            self.ctx.count("history_left_domain")
            return True
        return True

    def _seq(self, depth):
        while self.i < len(self.ops):
            op = self.ops[self.i]
            k = op["op"]
            if depth > 0 and k in ("set", "ud", "refresh") and self._conflict(op):
                return "conflict"  # the enclosing block is closed first, the operation then runs outside it
            self.i += 1
            self.nops += 1
            self.kinds.append(k if k != "device" else "device:" + op["via"])
            if k == "end":
                if depth > 0:
                    return "end"
                continue
            if k == "raise":
                if depth > 0:
                    return "raise"
                continue
            if k == "with":
                self._with(op, depth)
            elif k == "set":
                self.op_set(op)
            elif k == "ud":
                self.op_ud(op)
            elif k == "refresh":
                self.op_refresh(op)
            elif k == "file":
                self.op_file(op)
            elif k == "get":
                self.op_get(op)
            elif k == "device":
                self.op_device(op)
            else:
                raise HarnessError("unknown op %r" % (op,))
            if self.neutral is not None:
                what = self._neutral_call()
                self.kinds.append("neutral:" + what)
                self.compare("neutral_call_changed_state", phase=":" + what)
        return "eof"

    def _neutral_call(self):
        """one public call that reads, copies or rewrites-with-itself: it must not change what get returns"""
        C, rng, kc = self.C, self.neutral, self.kw_c
        s = self.schema
        c = int(rng.integers(12))
        if c == 0:
            C.get(s["NS1"] + "." + s["N1L"][int(rng.integers(2))], "dflt", **kc)
            return "get_default"
        if c == 1:
            C.get("anything", override_with=5, **kc)
            return "get_override_with"
        if c == 2:
            repr(self.cfg), str(self.dfl)
            try:
                copy.deepcopy(self.cfg)
            except TypeError:  # only if the store holds a foreign un-copyable object; the comparison that follows judges the content
                self.ctx.count("store_not_deep_copyable")
            return "repr_deepcopy"
        if c == 3:
            C.merge(self.cfg), C.merge(*self.dfl) if self.dfl else None
            return "merge"
        if c == 4:
            C.collect(), C.collect(path=self.userdir), list(C.collect_yaml(pathlib.Path(self.userdir)))
            return "collect"
        if c == 5:
            C.validate_device("cpu")
            if self.store == "global":
                C.get_device(), C.device()
            return "validate_cpu"
        if c == 6:
            C.canonical_name(s["L1"][int(rng.integers(2))], self.cfg)
            return "canonical_name"
        if c == 7:
            C.set({}, **kc), C.set(**kc)
            with C.set({}, **kc):
                pass
            return "empty_set"
        if c == 8:
            C.update({}, self.cfg), C.update(self.cfg, C.merge(self.cfg))  # the store merged with a copy of itself
            if rng.random() < 0.5:  # ... and with a copy of itself held by other Mapping types at every depth
                k = int(rng.integers(len(MAPCODES)))
                C.update(self.cfg, wrap_tree(C.merge(self.cfg), {"top": MAPCODES[k], "nested": MAPCODES[k + 1:] + MAPCODES[: k + 1]}))
                return "update_with_itself_other_mapping_types"
            return "update_with_itself"
        if c == 9:
            C.update_defaults({}, **self.kw_cd)
            return "empty_update_defaults"
        if c == 10:
            # output fed back as input: a leaf is set to the value get returns for it
            for key in (s["L1"][int(rng.integers(2))], s["NS1"] + "." + s["N1P"], "device"):
                v = self.real_get(key)
                if v is not MISSING and not isinstance(v, Mapping):
                    C.set({key: v}, **kc)
            return "set_to_own_value"
        if self.store == "global":
            with contextlib.redirect_stdout(io.StringIO()):
                C.write(os.path.join(self.ctx.tmp, "written-config.yaml"))
            return "write"
        try:
            yaml.safe_dump(copy.deepcopy(self.cfg))
        except (TypeError, yaml.YAMLError):  # only if the store holds a foreign object; the comparison that follows judges the content
            self.ctx.count("store_not_dumpable")
        return "dump"

    def _with(self, op, depth):
        ctx, C, m = self.ctx, self.C, self.model
        items, arg, kw = self._set_args(op)
        mitems = self._model_items(op, items)
        cm = C.set(arg, **kw, **self.kw_c) if arg is not None else C.set(**kw, **self.kw_c)
        m.open_with(mitems)
        for k, v in mitems:
            self._note_write(k, v)
        entered = False
        try:
            with cm:
                entered = True
                self.compare("get_vs_model", phase=":with-enter")
                r = self._seq(depth + 1)
                if r == "raise":
                    raise _Body()
        except _Body:
            pass
        except TypeError as e:
            if entered or "context manager" not in str(e):
                raise
            still = self.real_get(mitems[0][0])
            ctx.check(False, "with_protocol", "%s: `with config.set(%r)` raised TypeError(%s); the value stays %r afterwards; history=%s" % (self.store, op["items"], e, still, self.tag), **self.fields(exc_type="TypeError"))
            raise Abort()
        ctx.check(True, "with_protocol")
        m.close_with()
        self.kinds.append("with-exit")
        self.compare("with_restore", phase=":with-exit")


def _devkind(tok):
    if isinstance(tok, list):  # items of a set call
        tok = [v for k, v in tok if k == "device"][0]
    if isinstance(tok, dict):
        return "torch.device:" + tok["torch_device"].split(":")[0]
    if tok is None:
        return "None"
    if isinstance(tok, bool):
        return "bool"
    if isinstance(tok, int):
        return "index" if tok >= 0 else "negative_index"
    if isinstance(tok, float):
        return "float"
    s = str(tok).lower()
    for p in ("cpu", "cuda", "gpu", "mps"):
        if s.startswith(p):
            return p if s == p else p + ":suffix"
    return "unknown_string"


def _dup_spelling(d, prefix=""):
    if not isinstance(d, Mapping):
        return None
    seen = {}
    for k, v in d.items():
        if not isinstance(k, str):
            continue
        n = norm_key(k)
        if n in seen:
            return prefix + seen[n] + " / " + prefix + k
        seen[n] = k
        r = _dup_spelling(v, prefix + k + ".")
        if r:
            return r
    return None


def _first_diff(real, model, prefix=""):
    """dotted key of the first place where the normalised real store and the model differ"""
    rk = {}
    if isinstance(real, Mapping):
        for k in real:
            rk.setdefault(norm_key(k), k)
    mk = model if isinstance(model, dict) else {}
    for n in sorted(set(rk) | set(mk)):
        key = prefix + (rk.get(n, n))
        if n not in rk or n not in mk:
            return key
        a, b = real[rk[n]], mk[n]
        if isinstance(a, Mapping) and isinstance(b, dict):
            d = _first_diff(a, b, key + ".")
            if d:
                return d
        elif canon(a) != canon_model(b):
            return key
    return ""


# ------------------------------------------------------------------------------------------------
# random histories


def _rand_ops(rng, store, n):
    s = SCHEMAS[store]

    def sp(x):
        return x if isinstance(x, str) else x[int(rng.integers(2))]

    def leaf_key(sep="."):
        c = int(rng.integers(6))
        if c == 0:
            return sp(s["L1"])
        if c == 1:
            return s["L0"]
        if c == 2:
            return s["NS1"] + sep + sp(s["N1L"])
        if c == 3:
            return s["NS1"] + sep + s["N1P"]
        if c == 4:
            return sp(s["NS2"]) + sep + sp(s["N2L"])
        return sp(s["NS2"]) + sep + sp(s["N2S"]) + sep + sp(s["N2SL"])

    def value():
        return [0, 1, 2, 3, "a", "b", [1, 2], 0.5, None, True][int(rng.integers(10))]

    def nested_defaults():
        d = {}
        for _ in range(int(rng.integers(1, 4))):
            parts = leaf_key().split(".")
            cur = d
            okp = True
            for p in parts[:-1]:
                # do not put two spellings of one namespace into the same mapping
                ex = [k for k in cur if norm_key(k) == norm_key(p)]
                p = ex[0] if ex else p
                if not isinstance(cur.setdefault(p, {}), dict):
                    okp = False
                    break
                cur = cur[p]
            if okp:
                # one spelling per key inside one defaults mapping (two would be contradictory input)
                ex = [k for k in cur if norm_key(k) == norm_key(parts[-1])]
                if not ex:
                    cur[parts[-1]] = value()
                elif not isinstance(cur[ex[0]], dict):
                    cur[ex[0]] = value()
        return d

    def leaves(d, p=()):
        out = set()
        for k, v in d.items():
            q = p + (norm_key(k),)
            out |= leaves(v, q) if isinstance(v, dict) else {q}
        return out

    def prune(d, taken, p=()):
        """drop leaves that another current file already sets (files never contradict each other)"""
        for k in list(d):
            q = p + (norm_key(k),)
            if isinstance(d[k], dict):
                prune(d[k], taken, q)
                if not d[k]:
                    del d[k]
            elif q in taken:
                del d[k]
        return d

    FILES = ["05-site.yaml", "10-user.yml", "20-project.json", "30-local.yaml"]
    files = {}
    ops, open_ = [], 0
    for _ in range(n):
        c = rng.random()
        if c < 0.07:
            name = FILES[int(rng.integers(len(FILES)))]
            u = rng.random()
            if u < 0.12:
                content = ["empty", "comment", "null", "emptymap"][int(rng.integers(4))]
                files[name] = {}
            elif u < 0.2 and name in files:
                content = "delete"
                files.pop(name)
            else:
                taken = set().union(*[leaves(m) for nm, m in files.items() if nm != name]) if files else set()
                content = prune(nested_defaults(), taken)
                if rng.random() < 0.15 and ("device",) not in taken:
                    content["device"] = ["cpu", "CPU"][int(rng.integers(2))]
                files[name] = content
                if not content:
                    content = "emptymap"
            ops.append({"op": "file", "name": name, "content": content, "flow": bool(rng.random() < 0.3)})
        elif c < 0.30:
            form = ["map", "kw", "map"][int(rng.integers(3))]
            k = int(rng.integers(1, 4))
            if form == "kw":
                items = [[leaf_key("__").replace("-", "_"), value()] for _ in range(k)]
                items = list({a: [a, b] for a, b in items}.values())
            else:
                items = [[leaf_key(), value()] for _ in range(k)]
            op = {"op": "set", "form": form, "items": items}
            if form == "map" and rng.random() < 0.25:
                op["mapping_type"] = MAPCODES[1 + int(rng.integers(len(MAPCODES) - 1))]
            ops.append(op)
        elif c < 0.36:
            ns = sp(s["NS2"])
            ops.append({"op": "set", "form": "map", "nested": True, "items": [[ns, {sp(s["N2L"]): value(), sp(s["N2S"]): {sp(s["N2SL"]): value()}}]]})
        elif c < 0.52:
            op = {"op": "ud", "new": nested_defaults()}
            if rng.random() < 0.5:  # the same content in other Mapping types, a (possibly) different one at every depth
                op["wrap"] = {"top": TOPCODES[int(rng.integers(len(TOPCODES)))], "nested": [MAPCODES[int(j)] for j in rng.integers(len(MAPCODES), size=4)]}
            ops.append(op)
        elif c < 0.60:
            how = ["default", "default", "path_dir", "path_file", "path_missing"][int(rng.integers(5))] if files else ["default", "path_dir", "path_missing"][int(rng.integers(3))]
            op = {"op": "refresh", "how": how}
            if rng.random() < 0.3:
                op["env"] = {"QUANTEM_" + s["L1"][U].upper(): "99", "QUANTEM_" + s["NS1"].upper() + "__" + s["N1P"].upper(): "env", "QUANTEM_DEVICE": "cuda:7", "QUANTEM_VERBOSE": "7"}
            if how == "path_file":
                op["name"] = FILES[int(rng.integers(len(FILES)))]
            if how == "path_dir":
                op["as_str"] = bool(rng.random() < 0.5)
            ops.append(op)
        elif c < 0.68:
            key = leaf_key() if rng.random() < 0.7 else ["nope", s["L0"] + ".below-leaf", sp(s["NS2"]) + ".missing_one"][int(rng.integers(3))]
            op = {"op": "get", "key": key}
            if rng.random() < 0.5:
                op["default"] = "dflt"
            ops.append(op)
        elif c < 0.80 and open_ < 3:
            form = "kw" if rng.random() < 0.3 else "map"
            k = int(rng.integers(1, 3))
            if form == "kw":
                items = [[leaf_key("__").replace("-", "_"), value()] for _ in range(k)]
                items = list({a: [a, b] for a, b in items}.values())
            else:
                items = [[leaf_key(), value()] for _ in range(k)]
            if rng.random() < 0.15:
                items.append(["device", "cpu"])
            op = {"op": "with", "form": form, "items": items}
            if form == "map" and rng.random() < 0.25:
                op["mapping_type"] = MAPCODES[1 + int(rng.integers(len(MAPCODES) - 1))]
            ops.append(op)
            open_ += 1
        elif c < 0.88 and open_ > 0:
            ops.append({"op": "raise" if rng.random() < 0.3 else "end"})
            open_ -= 1
        elif c < 0.97:
            dev = DEVICES[int(rng.integers(len(DEVICES)))]
            via = ["set_device", "set", "validate", "ud"][int(rng.integers(4))]
            ops.append({"op": "device", "via": via, "dev": dev})
        else:
            dev = DEVICES[int(rng.integers(len(DEVICES)))]
            ops.append({"op": "set", "form": "map", "items": [[leaf_key(), value()], ["device", dev], [leaf_key(), value()]]})
    return ops


# ------------------------------------------------------------------------------------------------


def _run_history(ctx, store, prologue, ops, tag, neutral=None):
    st = ctx.state
    r = Runner(ctx, store, tag)
    r.neutral = neutral
    try:
        ok = r.run(list(prologue) + list(ops))
    finally:
        r.cleanup_files()
        if store == "global":
            _restore_globals(st)
    if store == "global":
        C = st["C"]
        if not (C.config == st["snap"][0] and list(C.defaults) == st["snap"][1]):
            raise HarnessError("module globals not restored")
    ctx.count("histories")
    ctx.count("operations", r.nops)
    sig = (store, tuple(r.kinds))
    if r.nontrivial:
        ctx.count("histories_nontrivial")
        st["hist_sigs"].add(hash(sig))
    return ok, r


def _wide_deep_ops(spec, rng):
    """mappings far wider / deeper than the schema: thousands of sibling keys in both spellings, 100+ levels"""
    W, D = spec["width"], spec["depth"]
    fam = spec["family"]
    name = lambda i: ("k%d-x" if i % 2 else "k%d_x") % i  # noqa: E731
    other = lambda i: ("k%d_x" if i % 2 else "k%d-x") % i  # noqa: E731
    deep = ".".join(("lvl-%d" if i % 2 else "lvl_%d") % i for i in range(D))
    deep_alt = ".".join(("lvl_%d" if i % 2 else "lvl-%d") % i for i in range(D))
    if fam == "wide_set":
        return [
            {"op": "ud", "new": {"wide": {name(i): i for i in range(0, W, 2)}}},
            {"op": "set", "form": "map", "items": [["wide." + other(i), -i] for i in range(1, W, 3)]},
            {"op": "set", "form": "map", "items": [[other(i), i] for i in range(W)]},
            {"op": "with", "form": "map", "items": [[name(i), "tmp"] for i in range(0, W, 5)] + [["fresh." + name(i), i] for i in range(0, W, 7)]},
            {"op": "get", "key": name(W // 2)},
            {"op": "end"},
            {"op": "refresh"},
        ]
    if fam == "wide_defaults_files":
        return [
            {"op": "ud", "new": {name(i): i for i in range(W)}},
            {"op": "ud", "new": {other(i): i + 1 for i in range(0, W, 2)}},
            {"op": "file", "name": "10-wide.yaml", "content": {"wide": {other(i): "f" for i in range(0, W, 4)}, **{other(i): "file" for i in range(1, W, 9)}}},
            {"op": "ud", "new": {"wide": {name(i): i for i in range(W)}}},
            {"op": "refresh"},
            {"op": "set", "form": "map", "items": [["wide." + name(i), None] for i in range(0, W, 3)]},
            {"op": "refresh", "how": "path_missing"},
        ]
    if fam == "deep":
        nested = cur = {}
        for i in range(D):
            cur[("lvl_%d" if i % 3 else "lvl-%d") % i] = {}
            cur = cur[("lvl_%d" if i % 3 else "lvl-%d") % i]
        cur["leaf-x"] = 1
        return [
            {"op": "set", "form": "map", "items": [[deep + ".leaf_x", 0]]},
            {"op": "get", "key": deep_alt + ".leaf-x"},
            {"op": "ud", "new": nested, **({"wrap": scheme_wrap(D)} if spec.get("neutral") else {})},  # every level another Mapping type
            {"op": "with", "form": "map", "items": [[deep_alt + ".leaf-x", 2], [deep + ".other", 3]]},
            {"op": "set", "form": "kw", "items": [[deep_alt.replace("-", "_").replace(".", "__") + "__third", 4]]},
            {"op": "end"},
            {"op": "file", "name": "10-deep.json", "content": nested},
            {"op": "refresh"},
            {"op": "set", "form": "map", "items": [[deep_alt + ".leaf_x", 5]]},
        ]
    raise HarnessError("unknown family %r" % fam)


_IMPORT_SCRIPT = """
import json, sys
from quantem.core import config as C
out = {"after_import": C.config, "path": str(C.PATH)}
C.set({"viz.cmap": "temporary", "verbose": 0})
C.refresh()
out["after_refresh"] = C.config
print("@@" + json.dumps(out))
"""


def run_import_env(spec, idx, ctx):
    """the user configuration directory is found through the environment (QUANTEM_CONFIG, or ~/.config/quantem) at import
    time: a fresh interpreter must start with defaults + user files (nested merge), and refresh() must give the same"""
    st = ctx.state
    C = st["C"]
    rng = ctx.rng(idx)
    root = os.path.join(ctx.tmp, "import-env-%d" % idx)
    home = os.path.join(root, "home")
    how = spec["how"]
    d = os.path.join(root, "cfgdir") if how == "QUANTEM_CONFIG" else os.path.join(home, ".config", "quantem")
    os.makedirs(d, exist_ok=True)
    os.makedirs(home, exist_ok=True)
    f1 = {"viz": {"cmap": ["hot", "plasma"][int(rng.integers(2))], "real-space-units": "nm"}, "mkl": {"threads": int(rng.integers(3, 9))}, "dtype-real": "float64"}
    f2 = {"viz": {"colors": {"extra": ["#000000"]}}, "site": {"name": "lab-%d" % int(rng.integers(100))}, "cupy": {"fft_cache_size": "1 MB"}}
    with open(os.path.join(d, "10-user.yaml"), "w") as f:
        yaml.safe_dump(f1, f)
    with open(os.path.join(d, "20-site.json"), "w") as f:
        json.dump(f2, f)
    open(os.path.join(d, "00-empty.yml"), "w").close()
    env = dict(os.environ)
    env["HOME"] = home
    env.pop("QUANTEM_CONFIG", None)
    if how == "QUANTEM_CONFIG":
        env["QUANTEM_CONFIG"] = d
    env["QUANTEM_VERBOSE"] = "7"  # not a configuration source
    p = subprocess.run([sys.executable, "-c", _IMPORT_SCRIPT], env=env, capture_output=True, text=True, timeout=600, cwd=root)
    line = [ln for ln in p.stdout.splitlines() if ln.startswith("@@")]
    if p.returncode != 0 or not line:
        ctx.viol("import_with_user_files_failed", "fresh interpreter with %s -> rc %s: %s" % (how, p.returncode, p.stderr[-600:]), how=how)
        return
    out = json.loads(line[0][2:])
    # expectation from the model: library defaults (this worker's pristine snapshot), user files layered on top
    m = ConfigModel({}, st["snap"][1], st["rule"])
    m.refresh([("10-user.yaml", f1), ("20-site.json", f2)])
    f = {"store": "fresh_interpreter", "how": how}
    ctx.check(os.path.realpath(out["path"]) == os.path.realpath(d), "user_directory_from_environment", "config.PATH = %r, expected %r" % (out["path"], d), **f)
    for phase in ("after_import", "after_refresh"):
        ok = same(out[phase], m.cfg)
        diff = "" if ok else _first_diff(out[phase], m.cfg)
        ctx.check(ok, "refresh_vs_defaults_and_user_files", lambda: "fresh interpreter (%s) %s: store differs from defaults + user files at %r: %r vs model %r" % (how, phase, diff, _dig(out[phase], diff), m.get(diff) if diff else None), phase=":" + phase, last_op="import" if phase == "after_import" else "refresh", spelling_mixed=True, key_depth=len(diff.split(".")), **f)
        dup = _dup_spelling(out[phase])
        ctx.check(dup is None, "spelling_single_entry", "both spellings stored side by side after %s: %r" % (phase, dup), phase=":" + phase, last_op="import", **f)
    ctx.count("histories")
    ctx.nontrivial(("import_env", how), True)
    ctx.observe(how=how, files=[f1, f2], path=out["path"])


def _dig(d, dotted):
    for k in dotted.split(".") if dotted else []:
        if not isinstance(d, dict):
            return MISSING
        alt = [x for x in d if norm_key(x) == norm_key(k)]
        if not alt:
            return MISSING
        d = d[alt[0]]
    return d


def run_case(spec, idx, ctx):
    if spec["kind"] == "import_env":
        return run_import_env(spec, idx, ctx)
    if spec["kind"] == "wide_deep":
        rng = ctx.rng(idx)
        ops = _wide_deep_ops(spec, rng)
        ok, r = _run_history(ctx, spec["store"], [], ops, "wide_deep:%s:%s" % (spec["store"], spec["family"]), neutral=rng if spec.get("neutral") else None)
        ctx.observe(store=spec["store"], family=spec["family"], width=spec["width"], depth=spec["depth"], kinds=r.kinds, store_leaves=_count_leaves(r.model.cfg))
        ctx.nontrivial(("wide_deep", spec["store"], spec["family"], spec["width"], spec["depth"]), r.nontrivial)
        return
    st = ctx.state
    store = spec["store"]
    sch = SCHEMAS[store]
    prologue = SEED_PROLOGUE(sch) if store == "seeded" else []
    nontriv = 0
    kinds_seen = None
    if spec["kind"] == "maptypes":
        # every 2-operation prefix that contains an update_defaults, its mappings (and those of the start state) held by
        # other Mapping types -- a different one at every nesting depth -- then refresh and a set below each namespace
        alpha = st["alpha"][store]
        k = spec["scheme"]

        def wrapped(ops, shift):
            return [dict(op, wrap=scheme_wrap(k, shift + j)) if op["op"] == "ud" else op for j, op in enumerate(ops)]

        n = 0
        for a, b in itertools.product(range(NALPHA), repeat=2):
            if a not in UD_ALPHA and b not in UD_ALPHA:
                continue
            seq = [a, b, *MAPTYPE_TAIL]
            ok, r = _run_history(ctx, store, wrapped(prologue, 3), wrapped([alpha[i] for i in seq], 0), "maptypes:%s:scheme%d:%s" % (store, k, seq))
            n += 1
            nontriv += bool(r.nontrivial)
            if kinds_seen is None:
                kinds_seen = r.kinds[:]
            if not ok and len(ctx._case["viol"]) >= 6:
                break
        ctx.observe(store=store, scheme=scheme_wrap(k), histories=n, nontrivial_histories=nontriv, first_history_kinds=kinds_seen)
        ctx.nontrivial(("maptypes", store, k), nontriv > 0)
    elif spec["kind"] == "exh":
        alpha = st["alpha"][store]
        a, b = spec["prefix"]
        tails = itertools.product(range(NALPHA), repeat=spec["depth"] - 2)
        n = 0
        for tail in tails:
            seq = [a, b, *tail]
            ok, r = _run_history(ctx, store, prologue, [alpha[i] for i in seq], "exh:%s:%s" % (store, seq))
            n += 1
            nontriv += bool(r.nontrivial)
            if kinds_seen is None:
                kinds_seen = r.kinds[:]
            if not ok and len(ctx._case["viol"]) >= 6:
                break
        ctx.observe(store=store, prefix=[alpha[a], alpha[b]], histories=n, nontrivial_histories=nontriv, first_history_kinds=kinds_seen)
        ctx.nontrivial(("exh", store, alpha[a]["op"], alpha[b]["op"], a, b), nontriv > 0)
    else:
        rng = ctx.rng(idx)
        sample = None
        for h in range(spec["n"]):
            ops = _rand_ops(rng, store, spec["len"])
            ok, r = _run_history(ctx, store, prologue, ops, "rand:%s:case%d:h%d" % (store, idx, h), neutral=ctx.rng(idx, 1 + h) if h % 2 else None)
            nontriv += bool(r.nontrivial)
            if sample is None:
                sample = ops
                kinds_seen = r.kinds[:]
            if not ok and len(ctx._case["viol"]) >= 6:
                break
        ctx.observe(store=store, histories=spec["n"], nontrivial_histories=nontriv, first_history=sample, first_history_kinds=kinds_seen)
        ctx.nontrivial(("rand", store, tuple(kinds_seen or ())), nontriv > 0)
    st["evidence_extra"]["distinct_nontrivial_histories"] = len(st["hist_sigs"])


def _count_leaves(d):
    return sum(_count_leaves(v) if isinstance(v, dict) else 1 for v in d.values())


def summarize(all_cases, counters, extras):
    out = {
        "histories": int(counters.get("histories", 0)),
        "operations": int(counters.get("operations", 0)),
        "nontrivial_histories": int(counters.get("histories_nontrivial", 0)),
        "distinct_nontrivial_histories": int(sum(e.get("distinct_nontrivial_histories", 0) for e in extras)),
        "histories_left_domain": int(counters.get("history_left_domain", 0)),
        "user_files_written": int(counters.get("user_files_written", 0)),
        "refreshes_with_user_files": int(counters.get("refresh_with_user_files", 0)),
        "refreshes_with_quantem_env_vars_set": int(counters.get("refresh_with_env_vars", 0)),
        "update_defaults_with_other_mapping_types": int(counters.get("update_defaults_with_other_mapping_types", 0)),
    }
    if extras:
        out["device_availability"] = extras[0].get("device_availability")
    return out
