"""C18 — centre-of-mass origin estimation is exact, path-independent and batch-invariant.

Monitors (all over real executions of the repository code):
* float64 weighted-mean oracle (row first, column second) against
  - PtychographyDatasetRaster (public ``preprocess`` and ``_set_intensities_com`` with a detector mask),
    vectorised *and* looped path,
  - CenterOfMassOriginModel.calculate_origin for **every** batch size 1..n (+ None, n+2);
* differential relations: vectorised vs looped, origin model vs dataset model, every batch size vs the
  un-batched run;
* fits: patterns are constructed so that their centres of mass lie exactly on a plane / a constant
  (fixed background + constant-mass bilinear deposit => CoM is affine in the deposit position); the
  fitted surface must be the measured surface (dataset model: ``fit_origin`` as the library calls it,
  origin model: ``fit_origin_background``), plus direct calls with exact float64 planes and explicit
  probe positions;
* integer fitted origins: ``shift_origin_to((0,0))`` must be ``np.roll(pattern, -origin)`` for every mode
  and batch size; the dataset model's ``centered_amplitudes`` must be the same roll of sqrt(I).
"""
from __future__ import annotations

import numpy as np

PROPERTY = "C18"
LEVEL = "exploration"
ANCHOR_FILES = [
    "quantem/diffractive_imaging/origin_models.py",
    "quantem/diffractive_imaging/dataset_models.py",
    "quantem/diffractive_imaging/ptycho_utils.py",
]
RULE = (
    "seeded cases over scan 2..7 x 2..7, detector 4..20 x 4..20, input dtype, detector mask kind, CoM surface "
    "(random / exact plane / exact constant), fit function, entry point (preprocess / direct), plus direct fit cases "
    "(exact float64 planes, explicit probe positions), integer-origin shift cases (3 interpolation modes, all batch sizes) and random "
    "fit_far cases (probe positions that are a scan grid translated far from zero / scaled / anisotropic / rotated / non-uniformly spaced, origins far from zero compared to their extent; plane and constant fits of both the origin model and fit_origin) and random "
    "histories of 4..10 public calls on ONE model object (calculate/fit/estimate_detector_rotation/shift/forward; preprocess/forward/reset/reads) "
    "audited after every call against snapshots, the float64 oracle and a fresh twin; "
    "non-trivial = non-square detector and mean |CoM_row - CoM_col| > 0.5 px (com), >= 3 calls of which >= 2 beyond the first measurement (history), non-square scan with distinct non-zero "
    "slopes (fit), non-square detector with row != column origins (shift); distinct = (kind, scan, detector, dtype, mask, surface, fit, entry/mode)"
)
ASSUMPTIONS = [
    "the library computes in float32 (config dtype_real); measured/fitted centres are judged at 1e-3 px / 1e-2 px against float64 oracles (measured floors 5e-6 / 4.6e-5 over 50 000 thorough cases)",
    "intensities are strictly positive and masks keep at least a quarter of the detector, so every pattern has positive mass (finite mask all True, as in the property's domain)",
    "exact-surface fits are only judged for float inputs (integer counts cannot put a CoM exactly on a plane) and the parabola fit only for scans >= 3x3 (full-rank design)",
    "shifts are judged against np.roll only for exactly integer fitted origins: target (0,0) = roll by -origin (the property), integer targets = roll by (target - origin) (shift_origin_to's documented 'target origin position'); fractional origins/targets are judged only differentially (history vs fresh twin)",
    "global_state cases: torch.set_float32_matmul_precision('high'/'medium'), torch.set_default_dtype(float64) and quantem config dtype_real/dtype_complex=float64/complex128 (set at run time through config.set, plain or as context manager) are applied around the calls and restored in a finally block; the origin model is float32 by construction in every state and must reproduce its default-state result bitwise-close (1e-5), the dataset model follows the configured dtype and is judged at 1e-9 px under float64; torch.autocast is not exercised (it is an explicit request for reduced precision; on the unchanged tree fit_origin_background(plane) is 0.06 px off inside autocast(bfloat16))",
    "workflow_integer cases: positive patterns whose centre of mass is a whole pixel by construction (background + compensated deposit); the origins the workflow itself fits (calculate -> fit -> shift / forward) are whole pixels within delta ~ 1e-6..1e-4 px and the shifted patterns must be np.roll(pattern, -round(origin)) within 5e-3 + 8*delta of the pattern maximum (measured 4.4e-5; a roll by the neighbouring pixel is O(1)); destination pixels whose source lies within 2 px of the detector edge are not judged, because shift_origin_to pads with zeros instead of wrapping when it interpolates across the seam - this only matters for non-integer origins, which the property does not cover (measured on the unchanged tree: 1e-3 of the maximum on the seam, 8e-6 elsewhere)",
    "the float32 CoM bound scales with the detector size beyond 20 px (1e-3 px * max(H, W) / 20; measured 4.6e-5 px on detectors up to 128 px)",
    "fit_large cases: exact planes / constants over 6e4..5e5 probe positions (1x1 detector, default grid or explicit positions with 0.2..3 A steps), total descan <= 8 px; float32 PCA bound 5e-2 px (measured floor 2.5e-4 on 40x2600), fit_origin in float64 1e-6 px",
    "cross-instance: a fresh model created after a history (incl. shifts / forward() to non-default targets on another instance with the same detector shape) must reproduce the fresh model created before it",
    "fit_far cases: explicit probe positions = scan grid (2..9 x 2..9), optionally irregularly spaced (steps 0.3..1.7 + jitter), scaled by 0.25..64 per axis (axis ratio <= 4), rotated, and translated by 30..3e5 position units per axis; origins 0..20 px or 20..4000 px from zero; total descan over the scan <= 8 px, <= 2 px per position unit and <= 1e4 * extent / translation. Singular-value ratio of the centred positions >= 0.25 (a float32 PCA loses eps * ratio^-2 on anisotropic clouds: measured factor 31 at ratio 0.1). Bound = K_FAR * eps32 * (max_k |P_k| |slope_k| + max |z|): the rounding of ONE float32 evaluation of the plane at those coordinates, which any backward-stable float32 fit attains up to a small factor (measured worst factor on the unchanged tree 8.3 over 9000 cases, K_FAR = 64; a one-pass covariance is off by a factor |translation| / extent, median 800). fit_origin works in float64 on scan indices: same bound with eps64 and K_FAR64 = 1e4 (measured worst factor 233, parabola), float32-rounded input judged at 32 x the float32 rounding of the data (measured 3.4)",
    "explicit probe positions for the PCA plane fit are non-collinear with slopes |a| <= 2 px per position unit",
]
BUDGET = {"quick": {"soft_s": 300}, "thorough": {"soft_s": 1200}}
MIN_EVALUATIONS = {"quick": 1000, "thorough": 20000}
REQUIRED_COUNTERS = [
    "eval:state_preserved",
    "eval:history_vs_fresh_twin",
    "eval:cross_instance_dependence",
    "eval:global_state_dependence",
    "eval:shift_near_integer_is_roll",
    "eval:fit_exact_surface_large_scan",
    "eval:fit_exact_surface_far_positions",
    "eval:com_vs_oracle_float64",
    "eval:com_vs_oracle",
    "eval:vectorized_vs_looped",
    "eval:batch_invariance",
    "eval:models_agree",
    "eval:fit_exact_surface",
    "eval:fit_exact_surface_origin_model",
    "eval:shift_is_roll",
]
EXHAUSTIVE = {"quick": False, "thorough": False}

TOL_COM = 1e-3  # px, float32 weighted means vs float64 oracle (measured floor 5e-6 on detectors <= 20 px; a row/column mix-up is >= 0.5 px)
TOL_PATH = 1e-3  # px, two float32 evaluations of the same mean (measured: 0 between the dataset paths, 6e-6 between the two models)
TOL_BATCH = 2e-5  # px / relative, same code with a different batch shape (measured: bitwise equal)
TOL_FIT = 1e-2  # px, fitted surface vs the exact surface it was fitted to (float32 PCA / float32 storage; measured floor 4.6e-5)
TOL_FIT64 = 1e-6  # px, fit_origin on exact float64 planes (least squares in float64)
TOL_STATE = 1e-5  # px / relative: an attribute re-read (or recomputed by the same call) later on the same object (measured: bitwise equal)
TOL_COM64 = 1e-9  # px, dataset model when the run-time configuration asks for float64 (measured floor on the unchanged tree: 0 - same float64 arithmetic; a float32 detour is >= 5e-8)
TOL_FIT64CFG = 1e-8  # px, fits of exactly planar float64 centres under that configuration (measured floor: 2e-13)
TOL_FIT_LARGE = 5e-2  # px, float32 PCA plane over 1e5..4e5 probe positions (measured floor 2.5e-4 on a 40x2600 scan; a lost offset is several px)
K_FAR = 64.0  # units of eps32 * (max |position * slope| + max |origin|): far / scaled / irregular probe positions (measured worst factor 8.5)
K_FAR64 = 1e4  # same in units of eps64 for fit_origin (float64 least squares)
K_FAR32IN = 32.0  # fit_origin handed the float32 image of an exact surface: units of eps32 * max |origin| (measured worst factor 3.4, a float32 mean of equal values)
FAR_FORMS = ["translated", "translated", "scaled_translated", "nonuniform_translated", "rotated_scaled_translated", "nonuniform_rotated_scaled_translated", "scaled", "nonuniform"]
TOL_ROLL = 5e-4  # relative to max|pattern| (float32 grid un-normalisation in grid_sample; measured floor 9e-7; an off-by-one roll is O(1))

DTYPES = ["float32", "float32", "float64", "uint16", "int32"]
MASKS = ["none", "none", "binary", "half", "weights"]
SURFACES = ["random", "plane", "plane", "constant"]
FITS = ["plane", "plane", "constant", "parabola", "none"]
MODES = ["bilinear", "nearest", "bicubic"]
GLOBAL_STATES = ["matmul_high", "matmul_medium", "default_dtype_float64", "config_float64", "config_float64", "config_float64+matmul_medium+default_dtype_float64"]
# regression corpus: exactly constant origins on which the iterative plane fit stopped with MINPACK info=8 and raised
FIT_WITNESSES = [
    ([3, 5], "0x1.8b0a63f8de6f2p+2"),
    ([4, 3], "0x1.4e0cc3a6dcdc5p+3"),
    ([5, 5], "0x1.079d8f996ee0cp+3"),
    ([5, 5], "0x1.c6d0600a60ca4p+3"),
    ([4, 6], "0x1.c6dc148591bd0p+1"),
    ([5, 5], "0x1.3f7dfaaa865c8p+3"),
    ([6, 7], "0x1.669d588ebbc49p+3"),
]


def _shape(rng, lo, hi, force_nonsquare):
    a, b = int(rng.integers(lo, hi + 1)), int(rng.integers(lo, hi + 1))
    if force_nonsquare and a == b:
        b = b + 1 if b < hi else b - 1
    return [a, b]


def plan(tier, seed):
    rng = np.random.default_rng([seed, 18, 4242])
    specs = []
    n_com, n_fit, n_shift = (1200, 400, 400) if tier == "quick" else (120000, 40000, 40000)
    # every scan shape 2..7 x 2..7 appears at least once
    scans = [[a, b] for a in range(2, 8) for b in range(2, 8)]
    for k in range(n_com):
        scan = scans[k % len(scans)] if k < 2 * len(scans) else _shape(rng, 2, 7, False)
        det = _shape(rng, 4, 20, rng.random() < 0.8)
        dt = DTYPES[int(rng.integers(len(DTYPES)))]
        surface = SURFACES[int(rng.integers(len(SURFACES)))]
        if dt not in ("float32", "float64"):
            surface = "random"
        mask = MASKS[int(rng.integers(len(MASKS)))]
        fit = FITS[int(rng.integers(len(FITS)))]
        if surface == "random" and rng.random() < 0.5:
            fit = "none"
        entry = "preprocess" if (mask == "none" and rng.random() < 0.6) else "direct"
        specs.append({"kind": "com", "scan": scan, "det": det, "dtype": dt, "surface": surface, "mask": mask, "fit": fit, "entry": entry})
    for k in range(n_fit):
        scan = scans[k % len(scans)] if k < len(scans) else _shape(rng, 2, 7, False)
        specs.append({"kind": "fit", "scan": scan, "surface": ["plane", "plane", "constant"][k % 3], "positions": ["grid", "explicit"][int(rng.integers(2))]})
    for scan, hx in FIT_WITNESSES:
        specs.append({"kind": "fit", "scan": scan, "surface": "constant", "positions": "grid", "value_hex": hx})
    n_hist = 360 if tier == "quick" else 15000
    for k in range(n_hist):
        surface = SURFACES[int(rng.integers(len(SURFACES)))]
        specs.append({"kind": "history", "impl": ["origin_model", "origin_model", "dataset"][k % 3], "scan": _shape(rng, 3, 7, False), "det": _shape(rng, 4, 20, rng.random() < 0.8), "dtype": ["float32", "float64"][int(rng.integers(2))], "surface": surface, "first": ["steps", "forward_default", "steps"][int(rng.integers(3))]})
    for k in range(n_shift):
        scan = _shape(rng, 1, 6, False)
        det = _shape(rng, 4, 20, rng.random() < 0.8)
        specs.append({"kind": "shift", "scan": scan, "det": det, "mode": MODES[k % 3], "route": ["setter", "setter", "constant_fit", "dataset"][int(rng.integers(4))]})
    n_glob = 240 if tier == "quick" else 8000
    big = [[5, 7], [6, 6], [6, 7], [7, 6], [7, 7], [7, 5]]  # > 32 patterns, so that batches of more than 32 patterns occur
    for k in range(n_glob):
        dt = ["float64", "float32", "float64", "uint16"][int(rng.integers(4))]
        surface = SURFACES[int(rng.integers(len(SURFACES)))] if dt.startswith("float") else "random"
        specs.append({"kind": "global_state", "state": GLOBAL_STATES[k % len(GLOBAL_STATES)], "scan": big[int(rng.integers(len(big)))] if k % 4 else _shape(rng, 2, 7, False), "det": _shape(rng, 4, 20, rng.random() < 0.8), "dtype": dt, "surface": surface, "mask": MASKS[int(rng.integers(len(MASKS)))], "how": ["set", "with"][int(rng.integers(2))]})
    # origins that are whole pixels only up to float32 round-off, produced by the workflow itself (measure -> fit -> shift)
    n_wf = 240 if tier == "quick" else 8000
    for k in range(n_wf):
        det = _shape(rng, 8, 40, rng.random() < 0.8) if k % 5 else _shape(rng, 48, 128, True)
        scan = _shape(rng, 2, 7, False) if k % 5 else _shape(rng, 2, 4, False)
        specs.append({"kind": "workflow_integer", "scan": scan, "det": det, "surface": ["int_plane", "int_constant"][k % 2], "fit": ["plane", "constant"][int(rng.integers(2))] if k % 2 else "plane", "mode": MODES[k % 3], "entry": ["forward", "steps"][int(rng.integers(2))]})
    # plane / constant fits over LARGE scans (the fit only needs the (R, C, 2) table of origins: 1x1 detector)
    large = [[330, 330], [1300, 90], [100, 1200], [512, 512], [317, 401], [90, 1300]]
    n_large = 12 if tier == "quick" else 300
    for k in range(n_large):
        scan = large[k] if k < len(large) else [int(rng.integers(200, 700)), int(rng.integers(200, 700))]
        specs.append({"kind": "fit_large", "scan": scan, "positions": ["grid", "explicit"][k % 2 if k >= len(large) else 0]})
    # probe positions / origins far from zero compared to their extent, scaled, rotated, irregular
    n_far = 320 if tier == "quick" else 16000
    for k in range(n_far):
        specs.append({"kind": "fit_far", "form": FAR_FORMS[k % len(FAR_FORMS)], "surface": ["plane", "plane", "constant"][int(rng.integers(3))], "zfar": bool(rng.random() < 0.4), "container": ["d3", "d4"][int(rng.integers(2))]})
    # interleave the kinds: when the soft time budget expires on a loaded machine every kind has still been run
    order = rng.permutation(len(specs))
    return [specs[i] for i in order]


def setup(ctx):
    import torch

    from quantem.core.datastructures import Dataset3d, Dataset4dstem
    from quantem.diffractive_imaging import ptycho_utils
    from quantem.diffractive_imaging.dataset_models import PtychographyDatasetRaster
    from quantem.diffractive_imaging.origin_models import CenterOfMassOriginModel

    ctx.state.update(torch=torch, D3=Dataset3d, D4=Dataset4dstem, PDR=PtychographyDatasetRaster, COM=CenterOfMassOriginModel, pu=ptycho_utils)
    import quantem.diffractive_imaging.dataset_models as dm

    ctx.state["dm"] = dm
    from quantem.core import config as qconfig

    ctx.state["config"] = qconfig


# ------------------------------------------------------------------------------------------------
# generators and oracles (harness side, float64)


def _oracle_com(a32, mask32=None):
    a = a32.astype(np.float64)
    if mask32 is not None:
        a = a * mask32.astype(np.float64)
    r = np.arange(a.shape[-2], dtype=np.float64)[:, None]
    c = np.arange(a.shape[-1], dtype=np.float64)[None, :]
    s = a.sum((-2, -1))
    return (a * r).sum((-2, -1)) / s, (a * c).sum((-2, -1)) / s


def _surface(rng, nr, nc, n, kind):
    """Target positions in [0.5, n-1.5] over the scan: random, exact plane, exact constant."""
    i, j = np.meshgrid(np.arange(nr), np.arange(nc), indexing="ij")
    if kind == "random":
        return rng.uniform(0.5, n - 1.5, size=(nr, nc))
    if kind == "constant":
        return np.full((nr, nc), float(rng.uniform(0.5, n - 1.5)))
    room = n - 3.0
    w = rng.uniform(0.15, 1.0, size=2)
    w = w / w.sum() * rng.uniform(0.3, 1.0)
    a1 = rng.choice([-1, 1]) * w[0] * room / max(nr - 1, 1)
    a2 = rng.choice([-1, 1]) * w[1] * room / max(nc - 1, 1)
    t = a1 * i + a2 * j
    off = rng.uniform(0.5 - t.min(), n - 1.5 - t.max())
    return t + off


def _gen_patterns(rng, nr, nc, H, W, surface, dtype):
    """Positive asymmetric patterns. For exact surfaces: fixed background + constant-mass bilinear deposit,
    so that CoM = alpha*target + beta exactly (affine image of a plane is a plane)."""
    B = rng.uniform(0.02, 0.2, size=(H, W))
    B[int(rng.integers(H)), int(rng.integers(W))] += rng.uniform(0.5, 2.0)  # fixed asymmetric feature
    M = float(rng.uniform(5, 50))
    tr = _surface(rng, nr, nc, H, surface)
    tc = _surface(rng, nr, nc, W, surface)
    A = np.empty((nr, nc, H, W), dtype=np.float64)
    for a in range(nr):
        for b in range(nc):
            P = B.copy()
            if surface == "random":
                P = P * rng.uniform(0.3, 3.0, size=(H, W))  # per-pattern structure, no exact surface
            r0, c0 = int(np.floor(tr[a, b])), int(np.floor(tc[a, b]))
            fr, fc = tr[a, b] - r0, tc[a, b] - c0
            P[r0, c0] += M * (1 - fr) * (1 - fc)
            P[r0 + 1, c0] += M * fr * (1 - fc)
            P[r0, c0 + 1] += M * (1 - fr) * fc
            P[r0 + 1, c0 + 1] += M * fr * fc
            A[a, b] = P
    dt = np.dtype(dtype)
    if dt.kind in "iu":
        A = np.maximum(1, np.round(A * (1000.0 if dt.itemsize >= 2 else 4.0)))  # counts, >= 1 (positive)
        A = np.minimum(A, np.iinfo(dt).max)
    else:
        # the centre of mass does not depend on the units of the intensities: counts, beam fractions (pattern sum << 1), large counts
        A = A * float(10.0 ** rng.choice([-6, -3, -1, 0, 0, 3]))
    return A.astype(dt)


def _gen_mask(rng, H, W, kind):
    if kind == "none":
        return None
    if kind == "binary":
        m = (rng.random((H, W)) < rng.uniform(0.5, 0.95)).astype(np.float32)
        m[rng.integers(H, size=3), rng.integers(W, size=3)] = 1.0
        if m.sum() < H * W / 4:
            m[: H // 2 + 1] = 1.0
        return m.astype(bool) if rng.random() < 0.5 else m
    if kind == "half":
        m = np.zeros((H, W), dtype=np.float32)
        if rng.random() < 0.5:
            m[: int(rng.integers(H // 2 + 1, H + 1))] = 1
        else:
            m[:, int(rng.integers(0, W // 2)) :] = 1
        return m
    return rng.uniform(0.1, 1.0, size=(H, W)).astype(np.float32)


def _plane_dev(z):
    """max deviation of z (nr,nc) from its float64 least-squares plane."""
    nr, nc = z.shape
    i, j = np.meshgrid(np.arange(nr), np.arange(nc), indexing="ij")
    G = np.stack([i.ravel(), j.ravel(), np.ones(nr * nc)], 1).astype(np.float64)
    coef, *_ = np.linalg.lstsq(G, z.ravel(), rcond=None)
    return float(np.max(np.abs(G @ coef - z.ravel())))


def _maxabs(x):
    x = np.asarray(x, dtype=np.float64)
    return float(np.max(np.abs(x))) if x.size else 0.0


# ------------------------------------------------------------------------------------------------


def _new_dataset(ctx, A):
    return ctx.state["PDR"].from_array(A.copy(), units=["A", "A", "A^-1", "A^-1"], verbose=0)


def _run_dataset_path(ctx, A, mask, fit, vec, entry):
    ds = _new_dataset(ctx, A)
    if entry == "preprocess":
        ds.preprocess(com_fit_function=fit, force_com_rotation=0.0, force_com_transpose=False, plot_rotation=False, plot_com=False, vectorized=vec, probe_energy=80e3)
    else:
        ds._set_intensities_com(ds.intensities_4d, dp_mask=None if mask is None else mask.copy(), fit_function=fit, vectorized_calculation=vec)
    return ds


def _judge_com(ctx, got_r, got_c, orr, occ, tol, mech="com_vs_oracle", **fields):
    er, ec = _maxabs(got_r - orr), _maxabs(got_c - occ)
    bad = max(er, ec) > tol
    swapped = bool(bad and max(_maxabs(got_r - occ), _maxabs(got_c - orr)) <= tol)
    ok1 = ctx.close(er, tol, mech, lambda: "row centre differs from the float64 weighted mean (swapped rows/columns: %s)" % swapped, axis="row", swapped=swapped, **fields)
    ok2 = ctx.close(ec, tol, mech, lambda: "column centre differs from the float64 weighted mean (swapped rows/columns: %s)" % swapped, axis="col", swapped=swapped, **fields)
    return ok1 and ok2


def _run_com(spec, idx, ctx):
    torch = ctx.state["torch"]
    rng = ctx.rng(idx)
    (nr, nc), (H, W) = spec["scan"], spec["det"]
    n = nr * nc
    A = _gen_patterns(rng, nr, nc, H, W, spec["surface"], spec["dtype"])
    mask = _gen_mask(rng, H, W, spec["mask"])
    A32 = A.astype(np.float32)
    mask32 = None if mask is None else np.asarray(mask, dtype=np.float32)
    orr, occ = _oracle_com(A32, mask32)
    fit, entry = spec["fit"], spec["entry"]
    masked = mask is not None
    if fit == "parabola" and min(nr, nc) < 3:
        fit = "plane"
    exact = spec["surface"] in ("plane", "constant") and spec["dtype"] in ("float32", "float64")
    if exact:
        dev = max(_plane_dev(orr), _plane_dev(occ))
        if masked or dev > 2e-5:
            # a detector mask cuts the deposit differently per pattern: the measured surface is no longer exact
            exact = False
            ctx.count("note:surface_not_exact_masked" if masked else "note:surface_not_exact")
    if spec["surface"] == "constant":
        fit_judged = exact and fit in ("plane", "constant", "parabola")
    else:
        fit_judged = exact and fit in ("plane", "parabola")

    # ---- dataset model: vectorised and looped ----------------------------------------------------
    res = {}
    for vec in (True, False):
        path = "vectorized" if vec else "looped"
        ds = _run_dataset_path(ctx, A, mask, fit, vec, entry)
        cm = np.asarray(ds.com_measured, dtype=np.float64)
        cf = np.asarray(ds.com_fit, dtype=np.float64)
        res[path] = (cm, cf)
        common = dict(impl="dataset", path=path, entry=entry, masked=masked)
        ctx.check(cm.shape == (2, nr, nc), "com_shape", "com_measured shape %s" % (cm.shape,), **common)
        _judge_com(ctx, cm[0], cm[1], orr, occ, TOL_COM, **common)
        if fit == "none":
            ctx.close(_maxabs(cf - cm), 0.0, "fit_none_identity", "fit_function='none' must return the measured centres", **common)
        elif fit_judged:
            ctx.close(_maxabs(cf - cm), TOL_FIT, "fit_exact_surface", lambda: "com_fit differs from the exact %s the measured centres lie on (fit=%s)" % (spec["surface"], fit), fit=fit, surface=spec["surface"], **common)
        if not vec and masked:
            # observation only: the looped path multiplies the caller's array in place
            changed = not np.array_equal(np.asarray(ds.intensities_4d), A32)
            ctx.count("note:looped_mask_mutates_intensities" if changed else "note:looped_mask_keeps_intensities")
    dv = _maxabs(res["vectorized"][0] - res["looped"][0])
    sw = bool(dv > TOL_PATH and _maxabs(res["vectorized"][0] - res["looped"][0][::-1]) <= TOL_PATH)
    ctx.close(dv, TOL_PATH, "vectorized_vs_looped", lambda: "com_measured differs between vectorized=True and vectorized=False (swapped: %s)" % sw, impl="dataset", entry=entry, masked=masked, swapped=sw)
    if fit != "none":
        dvf = _maxabs(res["vectorized"][1] - res["looped"][1])
        swf = bool(dvf > TOL_FIT and _maxabs(res["vectorized"][1] - res["looped"][1][::-1]) <= TOL_FIT)
        ctx.close(dvf, TOL_FIT, "vectorized_vs_looped_fit", lambda: "com_fit differs between the two paths (fit=%s, swapped: %s)" % (fit, swf), impl="dataset", entry=entry, masked=masked, fit=fit, swapped=swf)

    # ---- origin model: every batch size ----------------------------------------------------------
    Ain = A if not masked else (A32 * mask32)
    d4 = ctx.state["D4"].from_array(np.array(Ain, copy=True))
    m = ctx.state["COM"].from_dataset(d4)
    sizes = [None] + list(range(1, n + 1)) + [n + 2]
    base = None
    bitwise = 0
    for b in sizes:
        poison = torch.full((n, 2), float("nan"))
        del poison
        m.calculate_origin(b)
        om = m.origin_measured.detach().numpy().astype(np.float64).reshape(nr, nc, 2)
        _judge_com(ctx, om[..., 0], om[..., 1], orr, occ, TOL_COM, impl="origin_model", path="batched", entry="calculate_origin", masked=masked, batch="none" if b is None else ("n" if b == n else "gt_n" if b > n else "1" if b == 1 else "mid"))
        if base is None:
            base = om
        else:
            d = _maxabs(om - base)
            bitwise += int(d == 0.0)
            ctx.close(d, TOL_BATCH, "batch_invariance", lambda: "calculate_origin(max_batch_size=%r) differs from the un-batched result (n=%d)" % (b, n), impl="origin_model", stage="calculate_origin")
    cmv = res["vectorized"][0]
    ctx.close(max(_maxabs(base[..., 0] - cmv[0]), _maxabs(base[..., 1] - cmv[1])), TOL_PATH, "models_agree", "CenterOfMassOriginModel.origin_measured differs from PtychographyDatasetRaster.com_measured", masked=masked, entry=entry)
    # origin-model fits on the measured centres
    om_flat = base.reshape(n, 2)
    for fm in ("plane", "constant"):
        judged = exact and (fm == "plane" or spec["surface"] == "constant")
        if not judged:
            continue
        m.calculate_origin(int(rng.integers(1, n + 1)))
        m.fit_origin_background(fit_method=fm)
        of = m.origin_fitted.detach().numpy().astype(np.float64)
        ctx.close(_maxabs(of - om_flat), TOL_FIT, "fit_exact_surface_origin_model", lambda: "origin_fitted differs from the exact %s the measured origins lie on (fit_method=%s)" % (spec["surface"], fm), impl="origin_model", path="batched", entry="fit_origin_background", masked=masked, fit=fm, surface=spec["surface"])
    sep = float(np.mean(np.abs(orr - occ)))
    ctx.nontrivial(("com", tuple(spec["scan"]), tuple(spec["det"]), spec["dtype"], spec["mask"], spec["surface"], fit, entry), H != W and sep > 0.5)
    ctx.observe(n=n, mean_abs_row_minus_col=sep, bitwise_equal_batches=bitwise, batches=len(sizes), fit=fit, exact_surface=bool(exact))


# ------------------------------------------------------------------------------------------------


def _run_fit(spec, idx, ctx):
    """Exact float64 planes / constants handed to the fit entry points directly."""
    torch = ctx.state["torch"]
    pu = ctx.state["pu"]
    rng = ctx.rng(idx)
    nr, nc = spec["scan"]
    n = nr * nc
    i, j = np.meshgrid(np.arange(nr), np.arange(nc), indexing="ij")
    if spec["surface"] == "plane":
        coef = rng.uniform(-2, 2, size=(2, 2))
        coef[np.abs(coef) < 0.05] = 0.3
    else:
        coef = np.zeros((2, 2))
    off = rng.uniform(0, 20, size=2)
    if spec.get("value_hex"):
        off[0] = float.fromhex(spec["value_hex"])
    pr = coef[0, 0] * i + coef[0, 1] * j + off[0]
    pc = coef[1, 0] * i + coef[1, 1] * j + off[1]
    surf = np.stack([pr, pc])
    fits = ["plane", "constant" if spec["surface"] == "constant" else None, "parabola" if min(nr, nc) >= 3 else None]
    for ff in [f for f in fits if f]:
        fr, fc, rr, rc = pu.fit_origin(data=(pr.copy(), pc.copy()), fit_function=ff, mask=np.isfinite(pr))
        got = np.stack([np.asarray(fr, dtype=np.float64), np.asarray(fc, dtype=np.float64)])
        ctx.check(got.shape == surf.shape, "fit_shape", "fit_origin returned shape %s" % (got.shape,), impl="fit_origin", fit=ff)
        if got.shape != surf.shape:
            continue
        ctx.close(_maxabs(got - surf), TOL_FIT64, "fit_exact_surface", lambda: "fit_origin(%s) of an exact %s differs from it" % (ff, spec["surface"]), impl="fit_origin", path="direct", entry="fit_origin", masked=False, fit=ff, surface=spec["surface"])
        ctx.close(max(_maxabs(rr), _maxabs(rc)), TOL_FIT64, "fit_residuals_zero", "fit_origin residuals of an exact surface are not zero", impl="fit_origin", fit=ff)
    # origin model through the public setters
    if spec["positions"] == "grid":
        H, W = 6, 5
        d = ctx.state["D4"].from_array(np.ones((nr, nc, H, W), dtype=np.float32))
        pos = None
        P = np.stack([i.ravel(), j.ravel()], 1).astype(np.float64)
    else:
        d = ctx.state["D3"].from_array(np.ones((n, 6, 5), dtype=np.float32))
        while True:
            P = rng.uniform(0, 12, size=(n, 2)).astype(np.float32).astype(np.float64)
            q = P - P.mean(0)
            if n >= 3 and np.linalg.svd(q, compute_uv=False)[-1] > 1.0:
                break
            if n < 3:
                P = np.stack([i.ravel(), j.ravel()], 1).astype(np.float64)
                break
        pos = P.astype(np.float32)
    z = np.stack([P @ coef[0] + off[0], P @ coef[1] + off[1]], 1)
    z32 = z.astype(np.float32)
    m = ctx.state["COM"].from_dataset(d)
    for fm in ["plane"] + (["constant"] if spec["surface"] == "constant" else []):
        m.origin_measured = torch.tensor(z32.copy())
        if pos is None:
            m.fit_origin_background(fit_method=fm)
        else:
            m.fit_origin_background(probe_positions=pos.copy() if rng.random() < 0.5 else torch.tensor(pos.copy()), fit_method=fm)
        of = m.origin_fitted.detach().numpy().astype(np.float64)
        ctx.check(of.shape == (n, 2), "fit_shape", "origin_fitted shape %s" % (of.shape,), impl="origin_model", fit=fm)
        if of.shape == (n, 2):
            ctx.close(_maxabs(of - z32.astype(np.float64)), TOL_FIT, "fit_exact_surface_origin_model", lambda: "origin_fitted differs from the exact %s handed to origin_measured (fit_method=%s, positions=%s)" % (spec["surface"], fm, spec["positions"]), impl="origin_model", path="direct", entry="fit_origin_background", masked=False, fit=fm, surface=spec["surface"])
    distinct_slopes = spec["surface"] == "plane" and len(set(np.round(coef.ravel(), 3))) == 4
    ctx.nontrivial(("fit", tuple(spec["scan"]), spec["surface"], spec["positions"]), nr != nc and distinct_slopes)
    ctx.observe(coef=coef, off=off, positions=spec["positions"])


# ------------------------------------------------------------------------------------------------


def _run_shift(spec, idx, ctx):
    torch = ctx.state["torch"]
    rng = ctx.rng(idx)
    (nr, nc), (H, W) = spec["scan"], spec["det"]
    n = nr * nc
    A = (rng.uniform(0.05, 1.0, size=(nr, nc, H, W)) * rng.uniform(0.5, 200.0)).astype(np.float32)
    A[..., int(rng.integers(H)), int(rng.integers(W))] *= 7.0
    flat = A.reshape(n, H, W)
    route, mode = spec["route"], spec["mode"]
    if route == "constant_fit":
        org = np.tile(np.array([[int(rng.integers(H)), int(rng.integers(W))]]), (n, 1))
    elif idx % 3 == 0:
        # integer origins beyond the detector (corner-centred data, a descan plane extrapolating past the edge): the roll is still defined
        org = np.stack([rng.integers(-H, 2 * H, size=n), rng.integers(-W, 2 * W, size=n)], 1)
    else:
        org = np.stack([rng.integers(0, H, size=n), rng.integers(0, W, size=n)], 1)
    if route == "dataset":
        # the ptychography dataset model: integer com_fit -> centered_amplitudes = fftshift(roll(sqrt(I), -origin))
        ds = _new_dataset(ctx, A)
        ds._set_intensities_com(ds.intensities_4d, fit_function="none")
        ds.com_fit = (org[:, 0].reshape(nr, nc).astype(np.float64), org[:, 1].reshape(nr, nc).astype(np.float64))
        bil = mode != "bilinear"  # 'bilinear' slot -> Fourier shift, others -> bilinear resampling
        ds._normalize_diffraction_intensities(bilinear=bil)
        ca = np.asarray(ds.centered_amplitudes.detach().cpu().numpy() if hasattr(ds.centered_amplitudes, "detach") else ds.centered_amplitudes, dtype=np.float64)
        amp = np.sqrt(flat.astype(np.float64))
        ref = np.stack([np.fft.fftshift(np.roll(amp[k], (-org[k, 0], -org[k, 1]), axis=(0, 1))) for k in range(n)])
        ctx.check(ca.shape == ref.shape, "shift_shape", "centered_amplitudes shape %s" % (ca.shape,), impl="dataset")
        if ca.shape == ref.shape:
            ctx.close(_maxabs(ca - ref) / _maxabs(ref), TOL_ROLL, "shift_is_roll", "centered_amplitudes != fftshift(roll(sqrt(I), -com_fit)) for integer com_fit", impl="dataset", mode="bilinear" if bil else "fourier", batch="na")
    else:
        d4 = ctx.state["D4"].from_array(A.copy())
        m = ctx.state["COM"].from_dataset(d4)
        if route == "setter":
            m.origin_fitted = torch.tensor(org.astype(np.float32))
        else:
            m.origin_measured = torch.tensor(org.astype(np.float32))
            m.fit_origin_background(fit_method="constant")
            of = m.origin_fitted.detach().numpy()
            if not np.array_equal(of, org.astype(np.float32)):
                # the constant fit of identical integers must be those integers; judged as a fit defect, then stop
                ctx.close(_maxabs(of - org), 0.0, "fit_exact_surface_origin_model", "constant fit of identical integer origins is not that integer", impl="origin_model", path="direct", entry="fit_origin_background", masked=False, fit="constant", surface="constant")
                return
        ref = np.stack([np.roll(flat[k], (-org[k, 0], -org[k, 1]), axis=(0, 1)) for k in range(n)]).astype(np.float64)
        scale = _maxabs(ref)
        sizes = [None] + list(range(1, n + 1))
        base = None
        for b in sizes:
            m.shift_origin_to((0, 0), b, mode)
            S = m.shifted_tensor.detach().numpy().astype(np.float64)
            ctx.check(S.shape == A.shape, "shift_shape", "shifted_tensor shape %s" % (S.shape,), impl="origin_model")
            if S.shape != A.shape:
                continue
            S = S.reshape(n, H, W)
            ctx.close(_maxabs(S - ref) / scale, TOL_ROLL if mode != "nearest" else 0.0, "shift_is_roll", lambda: "shifted_tensor != np.roll(pattern, -origin) (mode=%s, max_batch_size=%r)" % (mode, b), impl="origin_model", mode=mode, batch="none" if b is None else "n" if b == n else "1" if b == 1 else "mid")
            if base is None:
                base = S
            else:
                ctx.close(_maxabs(S - base) / scale, TOL_BATCH, "batch_invariance", lambda: "shift_origin_to(max_batch_size=%r) differs from the un-batched result" % (b,), impl="origin_model", stage="shift_origin_to")
        # integer target other than the corner: the origin moves to the target, i.e. roll by (target - origin)
        for rep in range(2):
            tgt = (H // 2, W // 2) if rep == 0 else (int(rng.integers(0, H)), int(rng.integers(0, W)))
            b = [None, int(rng.integers(1, n + 1))][int(rng.integers(2))]
            m.shift_origin_to(tgt, b, mode)
            S = m.shifted_tensor.detach().numpy().astype(np.float64).reshape(n, H, W)
            ref_t = np.stack([np.roll(flat[k], (tgt[0] - org[k, 0], tgt[1] - org[k, 1]), axis=(0, 1)) for k in range(n)]).astype(np.float64)
            ctx.close(_maxabs(S - ref_t) / scale, TOL_ROLL if mode != "nearest" else 0.0, "shift_is_roll", lambda: "shifted_tensor != np.roll(pattern, target - origin) for target %r (mode=%s)" % (tgt, mode), impl="origin_model", mode=mode, batch="target_" + ("centre" if rep == 0 else "random"))
            # ... and the corner shift afterwards, on this instance and on a fresh one with the same detector shape
            m.shift_origin_to((0, 0), b, mode)
            S = m.shifted_tensor.detach().numpy().astype(np.float64).reshape(n, H, W)
            ctx.close(_maxabs(S - ref) / scale, TOL_ROLL if mode != "nearest" else 0.0, "shift_is_roll", lambda: "corner shift after a shift to target %r is no longer np.roll(pattern, -origin) (mode=%s)" % (tgt, mode), impl="origin_model", mode=mode, batch="corner_after_target")
        m2 = ctx.state["COM"].from_dataset(ctx.state["D4"].from_array(A.copy()))
        m2.calculate_origin(None)
        om2 = m2.origin_measured.detach().numpy().astype(np.float64)
        o_r, o_c = _oracle_com(A)
        _judge_com(ctx, om2[:, 0].reshape(nr, nc), om2[:, 1].reshape(nr, nc), o_r, o_c, TOL_COM, impl="origin_model", path="other_instance_after_target_shift", entry="calculate_origin", masked=False, batch="none")
        m2.origin_fitted = torch.tensor(org.astype(np.float32))
        m2.shift_origin_to(max_batch_size=None, mode=mode)
        S = m2.shifted_tensor.detach().numpy().astype(np.float64).reshape(n, H, W)
        ctx.close(_maxabs(S - ref) / scale, TOL_ROLL if mode != "nearest" else 0.0, "shift_is_roll", lambda: "corner shift on a fresh model after another instance shifted to a non-zero target != np.roll(pattern, -origin) (mode=%s)" % mode, impl="origin_model", mode=mode, batch="other_instance")
        ctx.check(np.array_equal(np.asarray(m.tensor), A), "input_mutated", "shift_origin_to modified the model's tensor", impl="origin_model")
    ctx.nontrivial(("shift", tuple(spec["scan"]), tuple(spec["det"]), mode, route), H != W and bool(np.any(org[:, 0] != org[:, 1])) and bool(np.any(org != 0)))
    ctx.observe(n=n, origins=org[:4], route=route, mode=mode)


# ------------------------------------------------------------------------------------------------
# histories on one model object: every attribute the property names is snapshotted when first judged and must be
# unchanged (or recomputed to the same value) after later public calls that do not claim to change it; after any
# history the object must agree with a fresh twin that only ran calculate -> fit -> shift with the same arguments.


def _np(t):
    return None if t is None else np.array(t.detach().cpu().numpy() if hasattr(t, "detach") else t, dtype=np.float64, copy=True)


def _history_origin_model(spec, idx, ctx, rng, A, orr, occ):
    COM, D4 = ctx.state["COM"], ctx.state["D4"]
    (nr, nc), (H, W) = spec["scan"], spec["det"]
    n = nr * nc
    A32 = A.astype(np.float32)
    m = COM.from_dataset(D4.from_array(A.copy()))
    oracle = np.stack([orr.ravel(), occ.ravel()], 1)
    state = {"measured": None, "fit_method": None, "fitted": None, "shift_args": None, "shifted": None}
    twins = {}

    def make_twin(fit_method, mode=None, coord=(0, 0)):
        t = COM.from_dataset(D4.from_array(A.copy()))
        t.calculate_origin(None)
        t.fit_origin_background(fit_method=fit_method)
        if mode is not None:
            t.shift_origin_to(coord, None, mode)
        return (_np(t.origin_fitted), _np(t.shifted_tensor), _np(t.origin_measured))

    def twin(fit_method, mode=None, coord=(0, 0)):
        key = (fit_method, mode, tuple(coord))
        if key not in twins:
            twins[key] = make_twin(fit_method, mode, coord)
        return twins[key]

    def target():
        u = rng.random()
        if u < 0.35:
            return (0, 0)
        if u < 0.75:  # integer target on the detector (e.g. the centre pixel)
            return (H // 2, W // 2) if rng.random() < 0.4 else (int(rng.integers(0, H)), int(rng.integers(0, W)))
        return (float(rng.uniform(0, H - 1)), float(rng.uniform(0, W - 1)))

    baseline = make_twin("plane", "bilinear", (0, 0))  # a fresh instance BEFORE the history

    def audit(after):
        f = dict(impl="origin_model", after=after)
        ctx.check(np.array_equal(_np(m.tensor), A32.astype(np.float64)), "state_preserved", "the model's tensor changed after %s" % after, attr="tensor", **f)
        om = _np(m.origin_measured)
        if state["measured"] is not None:
            ctx.close(_maxabs(om - state["measured"]), TOL_STATE, "state_preserved", lambda: "origin_measured read after %s differs from the value judged after calculate_origin" % after, attr="origin_measured", **f)
            _judge_com(ctx, om[:, 0].reshape(nr, nc), om[:, 1].reshape(nr, nc), orr, occ, TOL_COM, impl="origin_model", path="history", entry=after, masked=False, batch="history")
        if state["fitted"] is not None:
            of = _np(m.origin_fitted)
            ctx.close(_maxabs(of - state["fitted"]), TOL_STATE, "state_preserved", lambda: "origin_fitted read after %s differs from the value of the last fit_origin_background(%s)" % (after, state["fit_method"]), attr="origin_fitted", **f)
            ctx.close(_maxabs(of - twin(state["fit_method"])[0]), TOL_STATE, "history_vs_fresh_twin", lambda: "origin_fitted after the history (last op %s) differs from a fresh model that ran calculate_origin -> fit_origin_background(%s)" % (after, state["fit_method"]), attr="origin_fitted", **f)
        if state["shifted"] is not None:
            sh = _np(m.shifted_tensor)
            scale = _maxabs(state["shifted"]) or 1.0
            ctx.close(_maxabs(sh - state["shifted"]) / scale, TOL_STATE, "state_preserved", lambda: "shifted_tensor read after %s differs from the result of the last shift_origin_to" % after, attr="shifted_tensor", **f)
            fm, mode, coord = state["shift_args"]
            ctx.close(_maxabs(sh - twin(fm, mode, coord)[1]) / scale, TOL_STATE, "history_vs_fresh_twin", lambda: "shifted_tensor after the history (last op %s) differs from a fresh model that ran calculate -> fit(%s) -> shift(%s, target %r)" % (after, fm, mode, coord), attr="shifted_tensor", target="corner" if tuple(coord) == (0, 0) else "other", **f)

    ops = []
    length = int(rng.integers(5, 10))
    for step in range(length):
        avail = ["calc"]
        if state["measured"] is not None:
            avail += ["fit", "fit", "forward"]
        if state["fitted"] is not None:
            avail += ["rot", "rot", "shift", "shift"]
        if step == 0:
            op = "forward" if spec["first"] == "forward_default" else "calc"
        else:
            op = avail[int(rng.integers(len(avail)))]
        b = [None, int(rng.integers(1, n + 1))][int(rng.integers(2))]
        if op == "calc":
            m.calculate_origin(b)
            state["measured"] = _np(m.origin_measured) if state["measured"] is None else state["measured"]
            ops.append("calculate_origin(%r)" % b)
        elif op == "fit":
            fm = ["plane", "constant"][int(rng.integers(2))]
            m.fit_origin_background(fit_method=fm)
            state["fit_method"], state["fitted"] = fm, _np(m.origin_fitted)
            ops.append("fit_origin_background(%s)" % fm)
        elif op == "rot":
            if rng.random() < 0.5:
                m.estimate_detector_rotation()
            else:
                m.estimate_detector_rotation(np.linspace(-60, 60, 9).astype(np.float32))
            ops.append("estimate_detector_rotation")
        elif op == "shift":
            mode = MODES[int(rng.integers(len(MODES)))]
            coord = target()
            if tuple(coord) == (0, 0) and rng.random() < 0.5:
                m.shift_origin_to(max_batch_size=b, mode=mode)
            else:
                m.shift_origin_to(coord, b, mode)
            state["shifted"], state["shift_args"] = _np(m.shifted_tensor), (state["fit_method"], mode, coord)
            state["nonzero_target"] = state.get("nonzero_target") or tuple(coord) != (0, 0)
            ops.append("shift_origin_to(%r,%s,%r)" % (coord, mode, b))
        else:
            if step == 0 and spec["first"] == "forward_default":
                m.forward()
                fm, mode, coord = "plane", "bilinear", (0, 0)
                ops.append("forward()")
            else:
                fm, mode, coord = ["plane", "constant"][int(rng.integers(2))], MODES[int(rng.integers(len(MODES)))], target()
                m.forward(max_batch_size=b, fit_method=fm, estimate_detector_orientation=bool(rng.random() < 0.7), origin_coordinate=coord, mode=mode)
                ops.append("forward(%r,%s,%s,target %r)" % (b, fm, mode, coord))
            if state["measured"] is None:
                state["measured"] = _np(m.origin_measured)
            state["fit_method"], state["fitted"] = fm, _np(m.origin_fitted)
            state["shifted"], state["shift_args"] = _np(m.shifted_tensor), (fm, mode, coord)
            state["nonzero_target"] = state.get("nonzero_target") or tuple(coord) != (0, 0)
        audit(ops[-1].split("(")[0])
    # ---- other instances in the same process: a fresh model created AFTER the history must behave like the one created before
    after = make_twin("plane", "bilinear", (0, 0))
    g = dict(impl="origin_model", after_nonzero_target=bool(state.get("nonzero_target")))
    om = after[2]
    _judge_com(ctx, om[:, 0].reshape(nr, nc), om[:, 1].reshape(nr, nc), orr, occ, TOL_COM, impl="origin_model", path="other_instance_after_history", entry="calculate_origin", masked=False, batch="none")
    ctx.close(_maxabs(after[2] - baseline[2]), TOL_STATE, "cross_instance_dependence", "a fresh model's origin_measured depends on what another instance did before in the same process", attr="origin_measured", **g)
    ctx.close(_maxabs(after[0] - baseline[0]), TOL_STATE, "cross_instance_dependence", "a fresh model's origin_fitted depends on what another instance did before in the same process", attr="origin_fitted", **g)
    ctx.close(_maxabs(after[1] - baseline[1]) / (_maxabs(baseline[1]) or 1.0), TOL_STATE, "cross_instance_dependence", "a fresh model's corner-shifted tensor depends on what another instance did before in the same process", attr="shifted_tensor", **g)
    return ops


def _history_dataset(spec, idx, ctx, rng, A, orr, occ):
    (nr, nc), (H, W) = spec["scan"], spec["det"]
    n = nr * nc
    A32 = A.astype(np.float32)
    ds = _new_dataset(ctx, A)
    fit = ["plane", "constant", "none", "parabola"][int(rng.integers(4))]
    snap = {}
    ops = []

    def pre(first):
        kw = dict(com_fit_function=fit, plot_rotation=False, plot_com=False, vectorized=bool(rng.random() < 0.6))
        if first:
            kw["probe_energy"] = 80e3
        # rotation / transpose only steer the scan positions, not the centres of mass. They are always forced and the
        # transpose is left off: preprocess(force_com_rotation=0.0, force_com_transpose=True) (also reachable through the
        # automatic estimate) raises ValueError "negative strides" in _set_initial_scan_positions_px (np.flip view handed to
        # torch.tensor) - a defect outside this property, reported to the coordinator, not judged here.
        kw.update(force_com_rotation=float(rng.choice([0.0, rng.uniform(-1, 1)])), force_com_transpose=False)
        if rng.random() < 0.5:
            kw.update(bilinear=True)
        if rng.random() < 0.4:
            kw.update(obj_padding_px=(int(rng.integers(0, 4)), int(rng.integers(0, 4))))
        ds.preprocess(**kw)
        ops.append("preprocess(vectorized=%s)" % kw["vectorized"])

    def audit(after):
        f = dict(impl="dataset", after=after)
        cm, cf = _np(ds.com_measured), _np(ds.com_fit)
        ctx.check(np.array_equal(np.asarray(ds.intensities_4d), A32), "state_preserved", "intensities_4d changed after %s" % after, attr="intensities_4d", **f)
        if "cm" not in snap:
            snap["cm"], snap["cf"] = cm, cf
        ctx.close(_maxabs(cm - snap["cm"]), TOL_STATE, "state_preserved", lambda: "com_measured read after %s differs from the value judged after the first preprocess" % after, attr="com_measured", **f)
        ctx.close(_maxabs(cf - snap["cf"]), TOL_STATE, "state_preserved", lambda: "com_fit read after %s differs from the value of the first preprocess (same fit function %s)" % (after, fit), attr="com_fit", **f)
        _judge_com(ctx, cm[0], cm[1], orr, occ, TOL_COM, impl="dataset", path="history", entry=after, masked=False)

    pre(True)
    audit("preprocess")
    for step in range(int(rng.integers(3, 7))):
        op = ["com_normalized", "forward", "reset", "preprocess", "read_descan"][int(rng.integers(5))]
        if op == "com_normalized":
            v = ds.com_normalized
            v *= 0.0  # a caller scribbling on the returned array must not reach the stored centres
        elif op == "forward":
            k = int(rng.integers(1, n + 1))
            ds.forward(np.sort(rng.choice(n, size=k, replace=False)), (0, 0))
        elif op == "reset":
            ds.reset()
        elif op == "preprocess":
            pre(False)
        else:
            _ = ds.descan_shifts.detach().numpy().copy()
        if op != "preprocess":
            ops.append(op)
        audit(op)
    return ops


def _run_history(spec, idx, ctx):
    rng = ctx.rng(idx)
    (nr, nc), (H, W) = spec["scan"], spec["det"]
    A = _gen_patterns(rng, nr, nc, H, W, spec["surface"], spec["dtype"])
    orr, occ = _oracle_com(A.astype(np.float32))
    if spec["impl"] == "origin_model":
        ops = _history_origin_model(spec, idx, ctx, rng, A, orr, occ)
    else:
        ops = _history_dataset(spec, idx, ctx, rng, A, orr, occ)
    mutators = sum(1 for o in ops if o.split("(")[0] in ("estimate_detector_rotation", "forward", "shift_origin_to", "fit_origin_background", "reset", "com_normalized", "preprocess"))
    ctx.nontrivial(("history", spec["impl"], tuple(spec["scan"]), tuple(spec["det"]), spec["surface"], tuple(o.split("(")[0] for o in ops)), H != W and len(ops) >= 3 and mutators >= 2)
    ctx.observe(impl=spec["impl"], ops=ops)

# ------------------------------------------------------------------------------------------------
# process-global state a user may legitimately change: PyTorch's float32 matmul precision and default dtype, and the
# quantem configuration (dtype_real / dtype_complex set at run time through the public config API). Every state is
# restored afterwards (the worker process is shared by all cases).

import contextlib


@contextlib.contextmanager
def _global_state(ctx, name, how):
    from vf.core import HarnessError

    torch, config = ctx.state["torch"], ctx.state["config"]
    prev = (torch.get_float32_matmul_precision(), torch.get_default_dtype(), config.get("dtype_real"), config.get("dtype_complex"))
    stack = contextlib.ExitStack()
    try:
        for part in name.split("+"):
            if part.startswith("matmul_"):
                torch.set_float32_matmul_precision(part.split("_")[1])
            elif part == "default_dtype_float64":
                torch.set_default_dtype(torch.float64)
            elif part == "config_float64":
                if how == "with":
                    stack.enter_context(config.set({"dtype_real": "float64", "dtype_complex": "complex128"}))
                else:
                    config.set({"dtype_real": "float64", "dtype_complex": "complex128"})
        yield
    finally:
        stack.close()
        torch.set_float32_matmul_precision(prev[0])
        torch.set_default_dtype(prev[1])
        config.set({"dtype_real": prev[2], "dtype_complex": prev[3]})
        now = (torch.get_float32_matmul_precision(), torch.get_default_dtype(), config.get("dtype_real"), config.get("dtype_complex"))
        if now != prev:
            raise HarnessError("global state not restored: %r -> %r" % (prev, now))


def _origin_results(ctx, Ain, sizes, fit_method, mode):
    m = ctx.state["COM"].from_dataset(ctx.state["D4"].from_array(np.array(Ain, copy=True)))
    meas = {}
    for b in sizes:
        m.calculate_origin(b)
        meas[b] = _np(m.origin_measured)
    m.fit_origin_background(fit_method=fit_method)
    m.estimate_detector_rotation()
    m.shift_origin_to((0, 0), sizes[-1], mode)
    return meas, _np(m.origin_fitted), _np(m.shifted_tensor)


def _run_global(spec, idx, ctx):
    rng = ctx.rng(idx)
    (nr, nc), (H, W) = spec["scan"], spec["det"]
    n = nr * nc
    state = spec["state"]
    cfg64 = "config_float64" in state
    A = _gen_patterns(rng, nr, nc, H, W, spec["surface"], spec["dtype"])
    mask = _gen_mask(rng, H, W, spec["mask"])
    masked = mask is not None
    mask32 = None if mask is None else np.asarray(mask, dtype=np.float32)
    A32 = A.astype(np.float32)
    fit = ["plane", "constant", "none", "parabola" if min(nr, nc) >= 3 else "plane"][int(rng.integers(4))]
    fm, mode = ["plane", "constant"][int(rng.integers(2))], MODES[int(rng.integers(len(MODES)))]
    sizes = sorted(set([1, 32, 33, n, n + 2, int(rng.integers(1, n + 1))])) + [None]
    sizes = [b for b in sizes if b is None or b <= n + 2]
    Ain = A if not masked else A32 * mask32
    f = dict(state=state, config_how=spec["how"] if cfg64 else "na")
    # ---- default global state first (fresh instances) -------------------------------------------------------
    base_meas, base_fit, base_shift = _origin_results(ctx, Ain, sizes, fm, mode)
    base_ds = {}
    for vec in (True, False):
        ds = _run_dataset_path(ctx, A, mask, fit, vec, "direct" if masked else "preprocess")
        base_ds[vec] = (_np(ds.com_measured), _np(ds.com_fit))
    o32 = _oracle_com(A32, mask32)
    # ---- the same calls under the changed global state ------------------------------------------------------------
    with _global_state(ctx, state, spec["how"]):
        meas, fitted, shifted = _origin_results(ctx, Ain, sizes, fm, mode)
        got_ds = {}
        for vec in (True, False):
            ds = _run_dataset_path(ctx, A, mask, fit, vec, "direct" if masked else "preprocess")
            got_ds[vec] = (_np(ds.com_measured), _np(ds.com_fit), str(np.asarray(ds.com_measured).dtype), np.array(ds.intensities_4d, dtype=np.float64, copy=True))
    # ---- origin model (float32 by construction): oracle, batch invariance, equality with the default-state run
    ref = meas[None]
    for b in sizes:
        om = meas[b]
        _judge_com(ctx, om[:, 0].reshape(nr, nc), om[:, 1].reshape(nr, nc), o32[0], o32[1], TOL_COM, impl="origin_model", path="global_state", entry="calculate_origin", masked=masked, batch="none" if b is None else "gt_32" if b > 32 else "le_32", **f)
        ctx.close(_maxabs(om - ref), TOL_BATCH, "batch_invariance", lambda: "calculate_origin(max_batch_size=%r) differs from the un-batched result under %s (n=%d)" % (b, state, n), impl="origin_model", stage="calculate_origin", **f)
        ctx.close(_maxabs(om - base_meas[b]), TOL_STATE, "global_state_dependence", lambda: "origin_measured (max_batch_size=%r) under %s differs from the default-state result" % (b, state), impl="origin_model", attr="origin_measured", **f)
    ctx.close(_maxabs(fitted - base_fit), TOL_STATE, "global_state_dependence", lambda: "origin_fitted (%s) under %s differs from the default-state result" % (fm, state), impl="origin_model", attr="origin_fitted", **f)
    ctx.close(_maxabs(shifted - base_shift) / (_maxabs(base_shift) or 1.0), TOL_STATE, "global_state_dependence", lambda: "shifted_tensor (%s) under %s differs from the default-state result" % (mode, state), impl="origin_model", attr="shifted_tensor", **f)
    # ---- dataset model --------------------------------------------------------------------------------------
    for vec in (True, False):
        cm, cf, dt, held = got_ds[vec]
        path = "vectorized" if vec else "looped"
        common = dict(impl="dataset", path=path, entry="global_state", masked=masked, **f)
        if cfg64:
            ctx.check(dt == "float64", "configured_dtype_ignored", "com_measured is %s although dtype_real=float64 is configured" % dt, **common)
            # the working precision is float64 now: judge against the float64 oracle of the intensities the model holds
            src = A.astype(np.float64)
            if not (masked and not vec):  # (the looped path multiplies its intensities by the mask in place)
                ctx.check(np.array_equal(held, src), "intensities_rounded", "intensities_4d is not the float64 image of the input under dtype_real=float64", **common)
            o64 = _oracle_com(src, None if mask is None else mask32)
            _judge_com(ctx, cm[0], cm[1], o64[0], o64[1], TOL_COM64, mech="com_vs_oracle_float64", **common)
            dev = max(_plane_dev(o64[0]), _plane_dev(o64[1]))
            if fit == "none":
                ctx.close(_maxabs(cf - cm), 0.0, "fit_none_identity", "fit_function='none' must return the measured centres", **common)
            elif spec["surface"] in ("plane", "constant") and not masked and dev < 1e-11 and (fit != "constant" or spec["surface"] == "constant"):
                ctx.close(_maxabs(cf - cm), TOL_FIT64CFG, "fit_exact_surface_float64", lambda: "com_fit differs from the exact %s the measured centres lie on (fit=%s, float64 configuration)" % (spec["surface"], fit), fit=fit, surface=spec["surface"], **common)
        else:
            _judge_com(ctx, cm[0], cm[1], o32[0], o32[1], TOL_COM, **common)
            ctx.close(_maxabs(cm - base_ds[vec][0]), TOL_STATE, "global_state_dependence", lambda: "com_measured (%s) under %s differs from the default-state result" % (path, state), attr="com_measured", **common)
            ctx.close(_maxabs(cf - base_ds[vec][1]), TOL_STATE, "global_state_dependence", lambda: "com_fit (%s, %s) under %s differs from the default-state result" % (path, fit, state), attr="com_fit", **common)
    tolp = TOL_COM64 if cfg64 else TOL_PATH
    ctx.close(_maxabs(got_ds[True][0] - got_ds[False][0]), tolp, "vectorized_vs_looped_float64" if cfg64 else "vectorized_vs_looped", lambda: "com_measured differs between vectorized=True and vectorized=False under %s" % state, impl="dataset", entry="global_state", masked=masked, swapped=False, **f)
    ctx.close(max(_maxabs(ref[:, 0].reshape(nr, nc) - got_ds[True][0][0]), _maxabs(ref[:, 1].reshape(nr, nc) - got_ds[True][0][1])), TOL_PATH, "models_agree", "CenterOfMassOriginModel.origin_measured differs from PtychographyDatasetRaster.com_measured under %s" % state, masked=masked, entry="global_state", **f)
    sep = float(np.mean(np.abs(o32[0] - o32[1])))
    ctx.nontrivial(("global_state", state, tuple(spec["scan"]), tuple(spec["det"]), spec["dtype"], spec["mask"], spec["surface"], fit), H != W and sep > 0.5)
    ctx.observe(state=state, n=n, batch_sizes=sizes, over_32=bool(n > 32), fit=fit, dtype_com=got_ds[True][2])


# ------------------------------------------------------------------------------------------------
# whole-pixel origins produced by the workflow itself, and fits over large scans


def _gen_integer_com(rng, nr, nc, H, W, kr, kc):
    """Strictly positive, asymmetric patterns whose centre of mass is the integer (kr, kc)[i, j] up to float32 round-off:
    fixed background B (mass S, centre c_B) + bilinear deposit of mass M at t = k + (k - c_B) S / M  =>  CoM = k."""
    B = rng.uniform(0.02, 0.2, size=(H, W))
    B[int(rng.integers(H)), int(rng.integers(W))] += rng.uniform(0.5, 2.0)
    S = B.sum()
    cB = ((B * np.arange(H)[:, None]).sum() / S, (B * np.arange(W)[None, :]).sum() / S)
    M = S * float(rng.uniform(20, 100))
    A = np.empty((nr, nc, H, W))
    for a in range(nr):
        for b in range(nc):
            tr = kr[a, b] + (kr[a, b] - cB[0]) * S / M
            tc = kc[a, b] + (kc[a, b] - cB[1]) * S / M
            r0, c0 = int(np.floor(tr)), int(np.floor(tc))
            fr, fc = tr - r0, tc - c0
            P = B.copy()
            P[r0, c0] += M * (1 - fr) * (1 - fc)
            P[r0 + 1, c0] += M * fr * (1 - fc)
            P[r0, c0 + 1] += M * (1 - fr) * fc
            P[r0 + 1, c0 + 1] += M * fr * fc
            A[a, b] = P
    return (A * float(10.0 ** rng.choice([-3, 0, 0, 2]))).astype(np.float32)


def _int_surface(rng, nr, nc, n, kind):
    i, j = np.meshgrid(np.arange(nr), np.arange(nc), indexing="ij")
    lo, hi = 3, n - 4  # keeps the deposit (k +- 1 px) inside the detector
    if kind == "int_constant":
        return np.full((nr, nc), int(rng.integers(lo, hi + 1)))
    for _ in range(20):
        a, b = int(rng.integers(-2, 3)), int(rng.integers(-2, 3))
        t = a * i + b * j
        span = int(t.max() - t.min())
        if span <= hi - lo and (a or b):
            return t - t.min() + int(rng.integers(lo, hi - span + 1))
    return np.full((nr, nc), int(rng.integers(lo, hi + 1)))


def _run_workflow_integer(spec, idx, ctx):
    rng = ctx.rng(idx)
    (nr, nc), (H, W) = spec["scan"], spec["det"]
    n = nr * nc
    kr, kc = _int_surface(rng, nr, nc, H, spec["surface"]), _int_surface(rng, nr, nc, W, spec["surface"])
    A = _gen_integer_com(rng, nr, nc, H, W, kr, kc)
    K = np.stack([kr.ravel(), kc.ravel()], 1).astype(np.float64)
    orr, occ = _oracle_com(A)
    if max(_maxabs(orr - kr), _maxabs(occ - kc)) > 1e-4:
        from vf.core import HarnessError

        raise HarnessError("generator: centre of mass is not the intended integer (%g)" % max(_maxabs(orr - kr), _maxabs(occ - kc)))
    fit, mode = spec["fit"], spec["mode"]
    if spec["surface"] == "int_plane":
        fit = "plane"
    flat = A.reshape(n, H, W).astype(np.float64)
    scale = _maxabs(flat)
    f = dict(impl="origin_model", mode=mode, fit=fit, entry=spec["entry"], surface=spec["surface"])
    worst_delta, below = 0.0, False
    for b in [None, 1, int(rng.integers(1, n + 1))]:
        m = ctx.state["COM"].from_dataset(ctx.state["D4"].from_array(A.copy()))
        if spec["entry"] == "forward":
            m.forward(max_batch_size=b, fit_method=fit, estimate_detector_orientation=bool(rng.random() < 0.5), mode=mode)
        else:
            m.calculate_origin(b)
            m.fit_origin_background(fit_method=fit)
            m.shift_origin_to(max_batch_size=b, mode=mode)
        om, of = _np(m.origin_measured), _np(m.origin_fitted)
        _judge_com(ctx, om[:, 0].reshape(nr, nc), om[:, 1].reshape(nr, nc), orr, occ, TOL_COM * max(1.0, max(H, W) / 20.0), impl="origin_model", path="workflow_integer", entry=spec["entry"], masked=False, batch="na")
        delta = _maxabs(of - K)
        if not ctx.close(delta, TOL_FIT, "fit_exact_surface_origin_model", lambda: "origin_fitted differs from the exact integer %s the measured origins lie on (fit_method=%s)" % (spec["surface"], fit), impl="origin_model", path="workflow", entry="fit_origin_background", masked=False, fit=fit, surface=spec["surface"]):
            continue
        worst_delta = max(worst_delta, delta)
        below = below or bool(np.any(of < K))
        S = _np(m.shifted_tensor).reshape(n, H, W)
        # The fitted origin is k + delta with |delta| ~ 1e-6..1e-4: by continuity of the interpolation the result is the roll
        # by -k up to O(delta). Destination pixels whose source lies within 2 px of the detector edge are left out: the
        # resampling pads with zeros there instead of wrapping, which matters for non-integer origins only (outside the claim).
        err = 0.0
        for p in range(n):
            ref = np.roll(flat[p], (-int(K[p, 0]), -int(K[p, 1])), axis=(0, 1))
            sr = (np.arange(H) + int(K[p, 0])) % H
            scol = (np.arange(W) + int(K[p, 1])) % W
            ok = np.ix_((sr >= 2) & (sr <= H - 3), (scol >= 2) & (scol <= W - 3))
            err = max(err, _maxabs(S[p][ok] - ref[ok]))
        ctx.close(err / scale, 5e-3 + 8.0 * delta, "shift_near_integer_is_roll", lambda: "origins fitted by the workflow are whole pixels within %.1e px, but shifted_tensor is not np.roll(pattern, -round(origin)) away from the wrap seam (mode=%s, max_batch_size=%r)" % (delta, mode, b), batch="none" if b is None else "1" if b == 1 else "mid", **f)
    ctx.nontrivial(("workflow_integer", tuple(spec["scan"]), tuple(spec["det"]), spec["surface"], fit, mode, spec["entry"]), H != W and below and bool(np.any(K[:, 0] != K[:, 1])))
    ctx.observe(n=n, max_abs_fitted_minus_integer=worst_delta, some_origin_below_its_integer=below, origins=K[:4], fit=fit, mode=mode)


def _run_fit_large(spec, idx, ctx):
    torch = ctx.state["torch"]
    pu = ctx.state["pu"]
    rng = ctx.rng(idx)
    R, C = spec["scan"]
    n = R * C
    i, j = np.meshgrid(np.arange(R), np.arange(C), indexing="ij")
    span = rng.uniform(-8, 8, size=(2, 2))  # total descan over the scan: a few detector pixels
    span[np.abs(span) < 0.5] = 1.0
    off = rng.uniform(2, 20, size=2)
    z = np.stack([span[0, 0] * i / (R - 1) + span[0, 1] * j / (C - 1) + off[0], span[1, 0] * i / (R - 1) + span[1, 1] * j / (C - 1) + off[1]], -1).reshape(n, 2)
    z32 = z.astype(np.float32)
    if spec["positions"] == "grid":
        m = ctx.state["COM"].from_dataset(ctx.state["D4"].from_array(np.ones((R, C, 1, 1), dtype=np.float32)))
        pos = None
    else:
        m = ctx.state["COM"].from_dataset(ctx.state["D3"].from_array(np.ones((n, 1, 1), dtype=np.float32)))
        step = rng.uniform(0.2, 3.0, size=2)
        pos = (np.stack([i.ravel(), j.ravel()], 1) * step).astype(np.float32)
    f = dict(impl="origin_model", positions=spec["positions"], scan_class="square" if max(R, C) < 3 * min(R, C) else "elongated")
    for fm in ("plane", "constant"):
        m.origin_measured = torch.tensor(z32.copy())
        if pos is None:
            m.fit_origin_background(fit_method=fm)
        else:
            m.fit_origin_background(probe_positions=torch.tensor(pos.copy()), fit_method=fm)
        of = _np(m.origin_fitted)
        exp = z32.astype(np.float64) if fm == "plane" else np.broadcast_to(z32.astype(np.float64).mean(0), z32.shape)
        tol = TOL_FIT_LARGE if fm == "plane" else 1e-2  # float32 mean of 1e5..4e5 values
        ctx.close(_maxabs(of - exp), tol, "fit_exact_surface_large_scan", lambda: "origin_fitted (%s) over a %dx%d scan differs from the exact surface handed to origin_measured" % (fm, R, C), fit=fm, **f)
    fr, fc, rr, rc = pu.fit_origin(data=(z[:, 0].reshape(R, C).copy(), z[:, 1].reshape(R, C).copy()), fit_function="plane", mask=np.ones((R, C), dtype=bool))
    ctx.close(max(_maxabs(fr - z[:, 0].reshape(R, C)), _maxabs(fc - z[:, 1].reshape(R, C))), TOL_FIT64, "fit_exact_surface_large_scan", lambda: "fit_origin(plane) over a %dx%d scan differs from the exact plane" % (R, C), fit="plane", impl="fit_origin", positions="grid", scan_class=f["scan_class"])
    ctx.nontrivial(("fit_large", R, C, spec["positions"]), n >= 50000)
    ctx.observe(scan=[R, C], n=n, span=span, off=off, positions=spec["positions"])


def _far_positions(rng, form):
    """Scan positions as a user hands them over in stage / field-of-view coordinates: a raster (optionally irregularly spaced),
    scaled per axis, rotated, translated far from zero.  Returned as float32 (what the library works with)."""
    for attempt in range(50):
        nr, nc = int(rng.integers(2, 10)), int(rng.integers(2, 10))
        i, j = np.meshgrid(np.arange(nr), np.arange(nc), indexing="ij")
        G = np.stack([i.ravel(), j.ravel()], 1).astype(np.float64)
        if "nonuniform" in form:
            ax0 = np.concatenate([[0.0], np.cumsum(rng.uniform(0.3, 1.7, nr - 1))])
            ax1 = np.concatenate([[0.0], np.cumsum(rng.uniform(0.3, 1.7, nc - 1))])
            G = np.stack([ax0[i].ravel(), ax1[j].ravel()], 1) + rng.uniform(-0.1, 0.1, size=(nr * nc, 2))
        s = np.ones(2)
        if "scaled" in form:
            s[:] = 2.0 ** rng.uniform(-2, 6)
            if rng.random() < 0.5:
                s[1] = s[0] * 2.0 ** rng.uniform(-2, 2)
        P = G * s
        if "rotated" in form:
            th = rng.uniform(0, 2 * np.pi)
            P = P @ np.array([[np.cos(th), -np.sin(th)], [np.sin(th), np.cos(th)]]).T
        T = np.zeros(2)
        if "translated" in form:
            mag = 10.0 ** rng.uniform(1.5, 5.5, size=2)
            if rng.random() < 0.3:
                mag[int(rng.integers(2))] = 0.0
            T = rng.choice([-1.0, 1.0], size=2) * mag
            if rng.random() < 0.5:
                T = np.round(T)
        P32 = (P + T).astype(np.float32)
        q = P32.astype(np.float64) - P32.astype(np.float64).mean(0)
        sv = np.linalg.svd(q, compute_uv=False)
        if sv[0] > 0 and sv[-1] / sv[0] >= 0.25:
            return nr, nc, P32
    raise AssertionError("no well-conditioned position set drawn")


def _run_fit_far(spec, idx, ctx):
    """Exact planes / constants over probe positions (and origins) that are far from zero compared to their extent."""
    torch = ctx.state["torch"]
    pu = ctx.state["pu"]
    rng = ctx.rng(idx)
    form = spec["form"]
    nr, nc, P32 = _far_positions(rng, form)
    n = nr * nc
    P = P32.astype(np.float64)
    Pc = P.mean(0)
    ext = np.maximum((P - Pc).max(0) - (P - Pc).min(0), 1e-9)
    far = float(np.max(np.abs(P)) / np.max(ext))
    zoff = 10.0 ** rng.uniform(1.3, 3.6, size=2) if spec["zfar"] else rng.uniform(0, 20, size=2)
    eps32, eps64 = float(np.finfo(np.float32).eps), float(np.finfo(np.float64).eps)

    def draw_coef(extent, reach):
        # total descan over the scan: a few px, less when the coordinates are so large that one float32 evaluation of the plane is coarse
        if spec["surface"] != "plane":
            return np.zeros((2, 2))
        cap = np.minimum(np.minimum(8.0, 2.0 * extent), 1e4 * extent / np.maximum(reach, 1e-9))  # (slopes <= 2 px per position unit, as for every explicit-position case)
        span = rng.uniform(-1, 1, size=(2, 2))
        span[np.abs(span) < 0.06] = 0.125
        return span * cap[None, :] / extent[None, :]

    # ---- origin model, explicit positions ---------------------------------------------------------------------
    coef = draw_coef(ext, np.max(np.abs(P), 0))
    z = np.stack([(P - Pc) @ coef[0] + zoff[0], (P - Pc) @ coef[1] + zoff[1]], 1)
    z32 = z.astype(np.float32)
    if spec["container"] == "d4":
        d = ctx.state["D4"].from_array(np.ones((nr, nc, 2, 3), dtype=np.float32))
    else:
        d = ctx.state["D3"].from_array(np.ones((n, 2, 3), dtype=np.float32))
    m = ctx.state["COM"].from_dataset(d)
    unit = eps32 * max(float(np.max(np.abs(P) @ np.abs(coef[k])) + np.max(np.abs(z[:, k]))) for k in range(2))
    worst = 0.0
    for fm in ["plane"] + (["constant"] if spec["surface"] == "constant" else []):
        m.origin_measured = torch.tensor(z32.copy())
        how = int(rng.integers(3))
        pos = torch.tensor(P32.copy()) if how == 0 else P32.copy() if how == 1 else P32.astype(np.float64)
        m.fit_origin_background(probe_positions=pos, fit_method=fm)
        of = m.origin_fitted.detach().numpy().astype(np.float64)
        ctx.check(of.shape == (n, 2), "fit_shape", "origin_fitted shape %s" % (of.shape,), impl="origin_model", fit=fm)
        if of.shape != (n, 2):
            continue
        err = _maxabs(of - z32.astype(np.float64))
        worst = max(worst, err / unit) if err == err else float("inf")
        ctx.close(err / unit, K_FAR, "fit_exact_surface_far_positions", lambda: "origin_fitted differs from the exact %s handed to origin_measured by %.3e px = residual x the float32 rounding (%.1e px) of one evaluation of that surface (fit_method=%s, positions %s, |position|/extent = %.0f, origins ~ %.0f px)" % (spec["surface"], err, unit, fm, form, far, float(np.max(np.abs(z)))), impl="origin_model", fit=fm, surface=spec["surface"], form=form, zfar=spec["zfar"])
    # ---- dataset model's fit (fit_origin works on the scan indices): origins far from zero compared to their extent
    i, j = np.meshgrid(np.arange(nr), np.arange(nc), indexing="ij")
    cidx = draw_coef(np.array([max(nr - 1, 1), max(nc - 1, 1)], dtype=np.float64), np.array([nr - 1.0, nc - 1.0]))
    far_off = rng.choice([-1.0, 1.0], size=2) * 10.0 ** rng.uniform(1.3, 5.5, size=2) if spec["zfar"] else zoff
    pr = cidx[0, 0] * i + cidx[0, 1] * j + far_off[0]
    pc = cidx[1, 0] * i + cidx[1, 1] * j + far_off[1]
    surf = np.stack([pr, pc])
    unit64 = float(max(np.max(np.abs(cidx[k, 0]) * i + np.abs(cidx[k, 1]) * j) + np.max(np.abs(surf[k])) for k in range(2)))
    fits = ["plane", "constant" if spec["surface"] == "constant" else None, "parabola" if min(nr, nc) >= 3 else None]
    worst64 = 0.0
    for ff in [f for f in fits if f]:
        for dt in ("float64", "float32"):
            data = (pr.astype(dt), pc.astype(dt))
            held = np.stack([data[0].astype(np.float64), data[1].astype(np.float64)])
            fr, fc, rr, rc = pu.fit_origin(data=(data[0].copy(), data[1].copy()), fit_function=ff, mask=np.ones((nr, nc), dtype=bool))
            got = np.stack([np.asarray(fr, dtype=np.float64), np.asarray(fc, dtype=np.float64)])
            ctx.check(got.shape == surf.shape, "fit_shape", "fit_origin returned shape %s" % (got.shape,), impl="fit_origin", fit=ff)
            if got.shape != surf.shape:
                continue
            err = _maxabs(got - held)
            if dt == "float64":
                worst64 = max(worst64, err / (eps64 * unit64)) if err == err else float("inf")
                ctx.close(err / (eps64 * unit64), K_FAR64, "fit_exact_surface_far_positions", lambda: "fit_origin(%s) of an exact %s whose values are far from zero (%.3g) differs from it by %.3e px" % (ff, spec["surface"], float(np.max(np.abs(surf))), err), impl="fit_origin", fit=ff, surface=spec["surface"], form="origins_far" if spec["zfar"] else "origins_near", zfar=spec["zfar"], dtype=dt)
            else:
                # the float32 image of an exact plane is a plane up to eps32 |z| / 2 per point; a constant stays a constant
                ctx.close(err / (eps32 * unit64), K_FAR32IN, "fit_exact_surface_far_positions", lambda: "fit_origin(%s) of the float32 image of an exact %s (values ~ %.3g) differs from it by %.3e px" % (ff, spec["surface"], float(np.max(np.abs(surf))), err), impl="fit_origin", fit=ff, surface=spec["surface"], form="origins_far" if spec["zfar"] else "origins_near", zfar=spec["zfar"], dtype=dt)
    ctx.nontrivial(("fit_far", form, spec["surface"], spec["zfar"], spec["container"], nr, nc), (far >= 30 or spec["zfar"] or "scaled" in form or "nonuniform" in form) and n >= 4)
    ctx.observe(form=form, scan=[nr, nc], position_over_extent=far, max_abs_origin=float(np.max(np.abs(z))), worst_factor_float32=worst, worst_factor_float64=worst64, rounding_unit_px=unit)


def run_case(spec, idx, ctx):
    with np.errstate(all="ignore"):
        if spec["kind"] == "workflow_integer":
            _run_workflow_integer(spec, idx, ctx)
        elif spec["kind"] == "fit_large":
            _run_fit_large(spec, idx, ctx)
        elif spec["kind"] == "fit_far":
            _run_fit_far(spec, idx, ctx)
        elif spec["kind"] == "global_state":
            _run_global(spec, idx, ctx)
        elif spec["kind"] == "history":
            _run_history(spec, idx, ctx)
        elif spec["kind"] == "com":
            _run_com(spec, idx, ctx)
        elif spec["kind"] == "fit":
            _run_fit(spec, idx, ctx)
        else:
            _run_shift(spec, idx, ctx)


def summarize(all_cases, counters, extras):
    import collections
    import json

    per = collections.Counter()
    scans, dets = set(), set()
    for c in all_cases:
        if c.get("sig"):
            try:
                sig = json.loads(c["sig"])
                per[sig[0] + ("" if c.get("nontrivial") else ":trivial")] += 1
                if sig[0] == "com":
                    scans.add(tuple(sig[1]))
                    dets.add(tuple(sig[2]))
            except Exception:
                pass
    return {
        "cases_per_kind": dict(sorted(per.items())),
        "distinct_scan_shapes_com": len(scans),
        "distinct_detector_shapes_com": len(dets),
        "tolerances_px": {"com_vs_oracle": TOL_COM, "paths_and_models": TOL_PATH, "batch": TOL_BATCH, "fit_float32": TOL_FIT, "fit_float64": TOL_FIT64, "roll_relative": TOL_ROLL},
        "notes": {k: v for k, v in counters.items() if k.startswith("note:")},
    }
