"""Skip types for C14 whose ``isinstance()`` is *not* a lookup in ``type(value).__mro__``.

The property says "skipping by type at save time removes every attribute that is an instance of a listed type ... for all
lists of types", so abstract base classes with registered / ``__subclasshook__`` (virtual) subclasses, runtime-checkable
protocols and classes whose metaclass answers ``__instancecheck__`` are in its domain.  The classes defined here live at module
level so that the name the serializer records for them (``module.qualname``) can be re-imported by ``load``.  All of them answer
by the *type* of the value only (``isinstance(v, T) == issubclass(type(v), T)``), never by the value itself.

Imported inside workers only (imports vf.sergraph -> quantem).
"""
from __future__ import annotations

import abc
import collections.abc
import numbers
import os
import typing
from pathlib import Path

import numpy as np

from vf import sergraph


class Registered(abc.ABC):
    """ABC with virtual subclasses added by register(): none of them has Registered in its MRO."""


Registered.register(sergraph.Leaf)  # hence SubLeaf too (a real subclass of a registered class)
Registered.register(np.ndarray)
Registered.register(float)  # hence np.float64


class RegisteredNarrow(Registered):
    """a real subclass of Registered with its own registry: its virtual subclasses are instances of Registered as well."""


RegisteredNarrow.register(sergraph.Other)
RegisteredNarrow.register(Path)


class Hooked(abc.ABC):
    """ABC answering through __subclasshook__: every class that defines ``dtype`` (ndarray, NumPy scalars, Tensor, Parameter)."""

    @classmethod
    def __subclasshook__(cls, C):
        if cls is Hooked:
            return any("dtype" in vars(B) for B in C.__mro__)
        return NotImplemented


class _ByNameMeta(type):
    _NAMES = frozenset(["str", "PosixPath", "WindowsPath", "dict", "tuple", "Other", "SubLeaf", "bool"])

    def __instancecheck__(cls, inst):
        return type(inst).__name__ in cls._NAMES

    def __subclasscheck__(cls, sub):
        return getattr(sub, "__name__", None) in cls._NAMES


class ByMeta(metaclass=_ByNameMeta):
    """plain class (no ABC machinery) whose metaclass decides isinstance() by the exact class of the value."""


VIRTUAL_TYPES = {
    "abc.Mapping": collections.abc.Mapping,
    "abc.MutableMapping": collections.abc.MutableMapping,
    "abc.Sequence": collections.abc.Sequence,
    "abc.MutableSequence": collections.abc.MutableSequence,
    "abc.Set": collections.abc.Set,
    "abc.Sized": collections.abc.Sized,
    "abc.Iterable": collections.abc.Iterable,
    "abc.Container": collections.abc.Container,
    "abc.Collection": collections.abc.Collection,
    "abc.Hashable": collections.abc.Hashable,
    "abc.Callable": collections.abc.Callable,
    "numbers.Number": numbers.Number,
    "numbers.Complex": numbers.Complex,
    "numbers.Real": numbers.Real,
    "numbers.Integral": numbers.Integral,
    "os.PathLike": os.PathLike,
    "typing.SupportsFloat": typing.SupportsFloat,
    "typing.SupportsIndex": typing.SupportsIndex,
    "typing.SupportsComplex": typing.SupportsComplex,
    "c14.Registered": Registered,
    "c14.RegisteredNarrow": RegisteredNarrow,
    "c14.Hooked": Hooked,
    "c14.ByMeta": ByMeta,
}
