"""C20 — display normalisation is a monotone map into [0,1] with invertible stretches.

Oracle: order/range predicates evaluated on the outputs of the real CustomNormalization driven the
way the library drives it (limits from `data=`), plus direct calls, presets and stretch∘inverse.
"""
from __future__ import annotations

import itertools
import sys

import numpy as np

PROPERTY = "C20"
LEVEL = "exploration"
ANCHOR_FILES = ["quantem/core/visualization/custom_normalizations.py", "quantem/core/visualization/visualization.py"]
RULE = (
    "seeded matrix over dtype x interval x stretch x value-family x entry mode (data= / direct call / preset via "
    "_resolve_normalization) plus stretch-inverse cases; non-trivial = >=3 distinct finite values and (NaN/inf present or "
    "non-linear stretch) or a stretch-inverse case with a non-default parameter; distinct = (kind, dtype, interval, stretch, mode, family); "
    "object-lifetime cases: inside one case a sequence of freshly allocated temporaries (x - 0, copy, astype, abs, stack views, re-bound loop variable, "
    "np.array(list)) of one shape / dtype with different contents, each dropped before the next exists, and one buffer refilled in place, through eager "
    "(data=) / lazy / shared lazy normalisation objects, the bare interval classes and _show_2d_array; non-trivial = an id() of an earlier array of the "
    "sequence was handed out again (counted as lifetime_id_reused)"
)
ASSUMPTIONS = [
    "float32 inputs are judged with a 2e-4 range tolerance (arithmetic runs in the input precision); float64/integer inputs with 1e-9",
    "order is judged only between inputs that differ; +-inf inputs are not judged themselves but must not disturb finite ones",
    "limits are judged only when vmin < vmax (heavy ties can make quantile limits coincide)",
    "LinearStretch slope/intercept only where [0,1] maps into [0,1] (the class clips its input)",
    "a quantile interval's limits are judged by rank only: each must lie between the order statistics around rank q*(n-1) of the finite data (+-1 rank), so any interpolation rule passes",
    "pedestal cases (contrast 1e-2.5..1e-6 of the offset in float32, 1e-8.5..1e-12 in float64) use limits that are exact data values; limits / extreme pixels are judged at 16 eps of the data's precision, "
    "and the linear stretch against the float64 linear map at the same bound (measured <= 1 ulp)",
    "object-lifetime cases: the harness keeps no reference to a temporary (only its id() as an integer); results are judged against a long-lived array with "
    "bit-identical contents (same expression evaluated twice), by rank bracket (quantile), data extremes (min/max) and equality with what the long-lived twin gives; "
    "the library is assumed deterministic for bit-identical inputs of identical layout",
    "large-array cases (2**20..2**24 pixels, values correlated with the pixel index modulo 2..16) judge range / order on every pixel, quantile limits by rank, min/max limits exactly, and invariance of the limits under shuffling the pixels",
]
BUDGET = {"quick": {"soft_s": 300}, "thorough": {"soft_s": 1200}}
MIN_EVALUATIONS = {"quick": 500, "thorough": 5000}
REQUIRED_COUNTERS = ["lifetime_id_reused", "lifetime_inplace_refills"]  # the lifetime cases decide nothing unless an id() really was handed out again

DTYPES = ["bool", "int8", "uint8", "int16", "uint16", "int32", "uint32", "int64", "uint64", "float16", "float32", "float64"]
INTERVALS = ["manual_none", "manual_lo", "manual_hi", "manual_both", "manual_both_int", "quantile", "quantile_wide", "centered", "centered_hr"]
STRETCHES = ["linear", "power", "logarithmic", "asinh"]
FAMILIES = ["uniform", "ties", "wide", "nan", "inf", "halfrange", "sparse", "tiny", "huge"]
MODES = ["data", "direct", "preset"]
PRESETS = ["linear_auto", "quantile", "linear_minmax", "minmax", "linear_centered", "log_auto", "log_minmax", "power_squared", "power_sqrt", "asinh_centered"]
LT_INTERVALS = ["quantile", "quantile_wide", "manual_none", "centered"]
LT_TARGETS = ["eager", "lazy", "lazy_shared", "interval"]
LT_FORMS = ["arith", "copy", "astype", "abs", "view", "rebind", "inplace", "fromlist"]
STRETCH_CLASSES = ["LinearStretch", "PowerLawStretch", "LogarithmicStretch", "InverseLogarithmicStretch", "InverseHyperbolicSineStretch", "HyperbolicSineStretch"]


def plan(tier, seed):
    rng = np.random.default_rng([seed, 20, 999])
    specs = []
    combos = list(itertools.product(DTYPES, INTERVALS, STRETCHES))
    reps = 3 if tier == "quick" else 2000
    for dt, iv, st in combos:
        for r in range(reps):
            fam = FAMILIES[int(rng.integers(len(FAMILIES)))]
            mode = "data" if r % 3 != 1 else "direct"
            specs.append({"kind": "norm", "dtype": dt, "interval": iv, "stretch": st, "family": fam, "mode": mode})
    for dt in DTYPES:
        for p in PRESETS:
            for r in range(2 if tier == "quick" else 100):
                specs.append({"kind": "norm", "dtype": dt, "interval": "preset", "stretch": p, "family": FAMILIES[int(rng.integers(len(FAMILIES)))], "mode": "preset"})
    for cls in STRETCH_CLASSES:
        for r in range(20 if tier == "quick" else 2000):
            specs.append({"kind": "stretch_inv", "cls": cls, "default": r == 0})
    for r in range(10 if tier == "quick" else 500):
        specs.append({"kind": "combined"})
    # large images (interval code paths that depend on the number of pixels) with values correlated with pixel position
    sizes = [2**20 + 1, 2**21 + 5, 3 * 2**20 + 2, 2**22 + 3] if tier == "quick" else [2**20 + 1, 2**21 + 5, 3 * 2**20 + 2, 2**22 + 3, 2**22 + 2**21 + 1, 2**23 + 7, 2**24 + 1]
    for r in range(8 if tier == "quick" else 70):
        specs.append({"kind": "big", "size": sizes[r % len(sizes)], "dtype": ["float32", "uint16", "float64", "int32"][(r // 2) % 4], "interval": ["quantile", "quantile_wide", "manual_none", "centered"][r % 4 if r % 8 < 6 else 0],
                      "stretch": STRETCHES[(r // 3) % 4], "period": [2, 3, 4, 8, 16][r % 5]})
    # contrast on a large pedestal (limits are exact data values, so the limits must map to exactly 0 and 1 in any precision)
    for r in range(48 if tier == "quick" else 2000):
        specs.append({"kind": "pedestal", "dtype": "float32" if r % 3 != 2 else "float64", "ratio_exp": [3, 4, 5, 3.5, 2.5, 6][r % 6], "interval": ["manual_none", "manual_both", "quantile_wide"][(r // 2) % 3],
                      "stretch": STRETCHES[(r // 6) % 4]})
    # the normalisation as the plotting entry points construct it (in situ, through wrappers on the rgba converters)
    for r in range(60 if tier == "quick" else 1500):
        specs.append({"kind": "viz", "entry": "array" if r % 2 == 0 else "combined", "dtype": DTYPES[1:][r % (len(DTYPES) - 1)], "stretch": STRETCHES[(r // 2) % 4],
                      "limits": ["both", "none", "preset", "quantiles"][(r // 3) % 4]})
    # object lifetime / identity: short-lived arrays of one shape and dtype with different contents, one after the other in one case
    nd = len(DTYPES) - 1
    lt = []
    r = 0
    for rep in range(1 if tier == "quick" else 30):
        for dt in DTYPES[1:]:
            for iv in LT_INTERVALS:
                for tg in LT_TARGETS:
                    lt.append({"kind": "lifetime", "dtype": dt, "interval": iv, "target": tg, "form": LT_FORMS[(r + r // len(LT_FORMS) + rep) % len(LT_FORMS)],
                                  "stretch": STRETCHES[(r // 3 + rep) % 4], "pace": "tight" if (r // 2 + rep) % 3 != 0 else "interleaved"})
                    r += 1
    for r in range(24 if tier == "quick" else 400):
        lt.append({"kind": "lifetime", "dtype": DTYPES[1:][(r * 5) % nd], "interval": LT_INTERVALS[r % 2], "target": "viz", "form": ["arith", "astype", "abs", "view", "inplace", "rebind"][r % 6],
                      "stretch": STRETCHES[(r // 2) % 4], "pace": "tight"})
    # (the class sits at the end of the plan: a first block is exempt from the soft time budget so that it is never skipped as a whole)
    for sp in [x for x in lt if x["target"] != "viz"][:176] + [x for x in lt if x["target"] == "viz"][:24]:
        sp["_must_run"] = True
    specs += lt
    return specs


def setup(ctx):
    from quantem.core.visualization import custom_normalizations as cn

    ctx.state["cn"] = cn


# ------------------------------------------------------------------------------------------------


def _gen_values(rng, dt, fam):
    dtype = np.dtype(dt)
    shape = tuple(int(x) for x in rng.integers(1, 7, size=int(rng.integers(1, 4))))
    n = int(np.prod(shape))
    if n < 3:
        shape, n = (5,), 5
    if fam == "sparse":
        # a flat image with < 2 % outlier pixels: the default quantile limits coincide although the data is not constant
        shape = (int(rng.integers(8, 13)), int(rng.integers(8, 13)))
        n = shape[0] * shape[1]
        if dtype.kind == "b":
            a = np.zeros(n, bool)
            a[int(rng.integers(n))] = True
            return a.reshape(shape)
        base = int(rng.integers(0, 60))
        a = np.full(n, base, dtype=np.float64)
        a[int(rng.integers(n))] = base + int(rng.integers(2, 60)) * (1 if dtype.kind == "u" or rng.random() < 0.5 else -1)
        if dtype.kind == "u":
            a = np.abs(a)
        a = a.astype(dtype)
        if dtype.kind == "f" and rng.random() < 0.5:
            # coinciding limits *and* invalid pixels: the degenerate branch must still mask NaN
            free = np.flatnonzero(a == dtype.type(base))
            a[rng.choice(free, size=int(rng.integers(1, 4)), replace=False)] = np.nan
        return a.reshape(shape)
    if dtype.kind == "b":
        a = rng.integers(0, 2, size=n).astype(bool)
        a[:2] = [False, True]
        return a.reshape(shape)
    if dtype.kind in "iu":
        info = np.iinfo(dtype)
        lo, hi = int(info.min), int(info.max)
        if fam == "ties":
            base = rng.integers(max(lo, -50), min(hi, 50), size=3)
            a = rng.choice(base, size=n)
        elif fam in ("wide", "halfrange"):
            # range exceeds the positive half of the dtype (signed wrap territory)
            l2, h2 = (int(lo * 0.8), int(hi * 0.8)) if dtype.itemsize < 8 else ((-(2**62), 2**62) if dtype.kind == "i" else (0, 2**63))
            a = rng.integers(l2, h2, size=n, dtype=np.int64 if dtype != np.uint64 else np.uint64)
        else:
            l2, h2 = max(lo, -1000), min(hi, 1000)
            a = rng.integers(l2, h2, size=n)
        a = np.asarray(a).astype(dtype)
        if len(np.unique(a)) < 2:
            a[0] = a[0] - 1 if a[0] > lo else a[0] + 1
        return a.reshape(shape)
    # floats
    fi = np.finfo(dtype)
    if fam == "ties":
        a = rng.choice(rng.normal(size=3), size=n)
    elif fam == "wide":
        ex = {2: 4, 4: 30, 8: 200}[dtype.itemsize]
        a = rng.normal(size=n) * 10.0 ** rng.uniform(-ex / 2, ex / 2 if dtype.itemsize > 2 else 4, size=n)
    elif fam == "halfrange":
        top = float(fi.max) * (0.4 if dtype.itemsize == 2 else 0.01)  # float16 is promoted by the library; wider floats must not overflow their own span
        a = rng.uniform(-top, top, size=n)
    elif fam in ("tiny", "huge") and dtype.itemsize >= 4:
        # the whole image at 1e-8 / 1e+8 times (float32) or 1e-30 / 1e+30 times (float64) the usual scale
        ex = {4: 8, 8: 30}[dtype.itemsize]
        a = rng.normal(size=n) * 10.0 ** (-ex if fam == "tiny" else ex) * float(rng.uniform(0.5, 5.0))
        if rng.random() < 0.3:
            a[int(rng.integers(n))] = np.nan
    else:
        a = rng.normal(size=n) * 10.0 ** rng.uniform(-2, 3)
    a = a.astype(dtype)
    if fam == "nan":
        k = int(rng.integers(1, max(2, n // 3)))
        a[rng.choice(n, size=min(k, n - 2), replace=False)] = np.nan
    if fam == "inf":
        k = int(rng.integers(1, max(2, n // 3)))
        idx = rng.choice(n, size=min(k, n - 2), replace=False)
        a[idx] = np.where(rng.random(len(idx)) < 0.5, np.inf, -np.inf).astype(dtype)
        if rng.random() < 0.5 and n > 4:
            fin = np.flatnonzero(np.isfinite(a))
            if len(fin) > 2:
                a[fin[0]] = np.nan
    fin = a[np.isfinite(a)]
    if len(np.unique(fin)) < 2:
        fl = np.flatnonzero(np.isfinite(a))
        if len(fl) < 2:
            a[:2] = [0.0, 1.0]
        else:
            a[fl[0]] = a[fl[1]] + dtype.type(1.0)
    return a.reshape(shape)


def _cfg(rng, iv, st, data):
    fin = data[np.isfinite(data)] if data.dtype.kind == "f" else data.ravel()
    finf = fin.astype(np.float64)
    lo, hi = float(finf.min()), float(finf.max())
    span = hi - lo
    kw = {}
    if iv.startswith("manual"):
        kw["interval_type"] = "manual"
        a = lo + span * float(rng.uniform(-0.2, 0.6))
        b = a + span * float(rng.uniform(0.05, 0.9)) + (1e-6 if span == 0 else 0.0)
        if iv == "manual_both_int" or (data.dtype.kind in "iu" and rng.random() < 0.5 and iv != "manual_none"):
            a, b = int(np.floor(a)), int(np.floor(a)) + max(1, int(np.ceil(b - a)))
        if lo < 0 < hi and rng.random() < 0.3:
            # a limit of exactly zero (int or float) is a limit like any other
            z = 0 if rng.random() < 0.5 else 0.0
            if iv == "manual_lo" or (iv != "manual_hi" and rng.random() < 0.5):
                a, b = z, (max(b, 0.1 * hi) if b > 0 else 0.5 * hi)
            else:
                a, b = (min(a, 0.1 * lo) if a < 0 else 0.5 * lo), z
        if iv in ("manual_lo", "manual_both", "manual_both_int"):
            kw["vmin"] = a
        if iv in ("manual_hi", "manual_both", "manual_both_int"):
            kw["vmax"] = b
    elif iv.startswith("quantile"):
        kw["interval_type"] = "quantile"
        if iv == "quantile_wide":
            ql = float(rng.choice([0.0, 0.0, 0.1, 0.3]))
            qu = float(rng.choice([1.0, 1.0, 0.9, 0.7]))
            kw["lower_quantile"], kw["upper_quantile"] = ql, qu
    elif iv.startswith("centered"):
        kw["interval_type"] = "centered"
        kw["vcenter"] = float(lo + span * rng.uniform(0, 1)) if rng.random() < 0.7 else 0.0
        if iv == "centered_hr":
            kw["half_range"] = float(max(span, 1e-3) * rng.uniform(0.1, 1.5))
    kw["stretch_type"] = st
    if st == "power":
        kw["power"] = float(10 ** rng.uniform(-1, np.log10(5)))
    elif st == "logarithmic":
        kw["logarithmic_index"] = float(10 ** rng.uniform(-3, 6))
    elif st == "asinh":
        kw["asinh_linear_range"] = float(10 ** rng.uniform(-4, 1))
    if st != "power" and rng.random() < 0.25:
        # two common options together: a power (gamma) next to another stretch type
        kw["power"] = float(rng.choice([0.5, 2.0, 0.25, 3.0, float(10 ** rng.uniform(-1, np.log10(5)))]))
    return kw


def _stretch_in_use(ctx, norm, common):
    """Whatever stretch object the normalisation ends up using (any class, any option combination) composed with the inverse it
    declares must be the identity on [0,1]."""
    s = getattr(norm, "stretch", None)
    if s is None or not hasattr(s, "inverse"):
        ctx.count("stretch_in_use_not_inspectable")
        return
    y = np.concatenate([np.linspace(0.0, 1.0, 33), [0.013, 0.37, 0.92]])
    inv = s.inverse
    cls = type(s).__name__
    if cls == "HyperbolicSineStretch" and getattr(s, "a", 1.0) < 0.05:
        return
    a = np.asarray(s(np.asarray(inv(y.copy()), dtype=np.float64).copy()), dtype=np.float64)
    ctx.close(float(np.max(np.abs(a - y))), 1e-8, "stretch_in_use_of_inverse", lambda: "%s in use: max|s(s^-1(y))-y| = %.3g" % (cls, float(np.max(np.abs(a - y)))), **common)
    b = np.asarray(inv(np.asarray(s(y.copy()), dtype=np.float64).copy()), dtype=np.float64)
    ctx.close(float(np.max(np.abs(b - y))), 1e-8, "inverse_of_stretch_in_use", lambda: "%s in use: max|s^-1(s(y))-y| = %.3g" % (cls, float(np.max(np.abs(b - y)))), **common)


def _same_out(a, b, atol=0.0):
    ma, mb = np.ma.getmaskarray(a), np.ma.getmaskarray(b)
    if a.shape != b.shape or not np.array_equal(ma, mb):
        return False
    da, db = np.ma.getdata(a)[~ma].astype(np.float64), np.ma.getdata(b)[~mb].astype(np.float64)
    return bool(np.array_equal(da, db)) if atol == 0.0 else bool(np.all(np.abs(da - db) <= atol))


def _forms(ctx, cn, rng, use, kw, norm, out, mode, common):
    """Equivalent forms of the same request: the memory layout / ownership / container of the input, NumPy-scalar spellings of the
    limits, and calls that are neutral for the result (repr, reads, copies of the normalisation object) must not change the output."""
    import copy
    import pickle

    variants = {}
    if use.ndim >= 2:
        variants["fortran_order"] = np.asfortranarray(use)
        variants["transposed_memory"] = use.T.copy().T
    buf = np.zeros(use.shape[:-1] + (use.shape[-1] * 2,), dtype=use.dtype)
    buf[..., ::2] = use
    variants["strided_view"] = buf[..., ::2]
    ro = use.copy()
    ro.setflags(write=False)
    variants["read_only"] = ro
    if use.dtype in (np.float64, np.int64):
        variants["nested_list"] = use.tolist()
    for name, v in variants.items():
        try:
            o = norm(v)
        except Exception as e:  # noqa: BLE001
            ctx.check(False, "input_form_dependence", "%s input: %s: %s" % (name, type(e).__name__, str(e)[:200]), form=name, **common)
            continue
        ctx.check(_same_out(o, out), "input_form_dependence", lambda: "%s input gives another result than the C-contiguous array: %r vs %r" % (name, np.ma.getdata(o).ravel()[:4].tolist(), np.ma.getdata(out).ravel()[:4].tolist()), form=name, **common)
    # limits spelled as NumPy scalars
    if kw.get("interval_type") == "manual" and (kw.get("vmin") is not None or kw.get("vmax") is not None):
        kw2 = dict(kw)
        # (integers beyond the int64 range stay Python integers: NumPy itself refuses to mix them with fixed-width scalars)
        small = all(abs(kw2[k]) < 2**62 for k in ("vmin", "vmax") if isinstance(kw2.get(k), int))
        for k in ("vmin", "vmax"):
            v = kw2.get(k)
            if v is None:
                continue
            if isinstance(v, int) and not isinstance(v, bool) and small:
                kw2[k] = np.int64(v)
            elif isinstance(v, float):
                kw2[k] = np.float64(v)
        o2 = (cn.CustomNormalization(data=use, **kw2) if mode != "direct" else cn.CustomNormalization(**kw2))(use)
        # (a NumPy float64 scalar promotes float32 data to float64 where a Python float does not: same map, other rounding)
        ctx.check(_same_out(o2, out, atol=_tol(use.dtype)), "limit_form_dependence", lambda: "limits given as NumPy scalars (%r) give another result than Python numbers (%r)" % ({k: kw2.get(k) for k in ("vmin", "vmax")}, {k: kw.get(k) for k in ("vmin", "vmax")}), **common)
    # neutral calls
    repr(norm)
    _ = (norm.vmin, norm.vmax, norm.scaled(), str(norm.interval), str(norm.stretch))
    ctx.check(_same_out(norm(use), out), "neutral_call_dependence", "repr / attribute reads / scaled() changed the result of the next call", step="reads", **common)
    for name, maker in (("deepcopy", lambda: copy.deepcopy(norm)), ("pickle", lambda: pickle.loads(pickle.dumps(norm)))):
        try:
            twin = maker()
        except Exception:  # noqa: BLE001
            ctx.count("norm_%s_unsupported" % name)
            continue
        ctx.check(_same_out(twin(use), out), "neutral_call_dependence", "a %s of the normalisation object normalises differently" % name, step=name, **common)
        ctx.check(_same_out(norm(use), out), "neutral_call_dependence", "taking a %s changed the original object" % name, step=name + "_source", **common)


def _quantile_bracket(ctx, use, ql, qu, vmin, vmax, common):
    """A quantile interval's limits are the declared quantiles of the finite data: whatever interpolation rule is used, the
    q-quantile lies between the order statistics around rank q*(n-1) (one extra rank of slack on either side)."""
    fin = use[np.isfinite(use)] if use.dtype.kind == "f" else use.ravel()
    srt = np.sort(fin.astype(np.float64).ravel())
    n = len(srt)
    if n < 2:
        return
    for q, lim, name in ((ql, vmin, "lower"), (qu, vmax, "upper")):
        r = q * (n - 1)
        lo = srt[max(0, int(np.floor(r)) - 1)]
        hi = srt[min(n - 1, int(np.ceil(r)) + 1)]
        slack = 8 * float(np.finfo(use.dtype).eps if use.dtype.kind == "f" and use.dtype.itemsize >= 4 else np.finfo(np.float64).eps) * max(abs(lo), abs(hi), 1e-300)
        off = max(lo - slack - float(lim), float(lim) - hi - slack, 0.0)
        ctx.check(off == 0.0, "quantile_limit_outside_rank_bracket", lambda: "%s limit %r for quantile %r of %d finite values lies outside [%r, %r]" % (name, float(lim), q, n, lo, hi), **common)


def _tol(dtype):
    if dtype == np.float32:
        return 2e-4  # measured overshoot 5e-5 for logarithmic a~1e-3 (cancellation in log(a*x+1) in float32)
    return 1e-9  # float64, integers and float16 (which the library promotes to float64)


def _ltol(dtype):
    # limits evaluated in float64 against limits the library stores in the data's precision
    return 1e-5 if dtype == np.float32 else 1e-9


def _judge(ctx, spec, data, norm, out, tag):
    dt = str(data.dtype)
    tol = _tol(data.dtype)
    common = {"dtype": dt, "interval": spec["interval"], "stretch": spec["stretch"], "mode": spec["mode"]}
    if data.dtype.kind == "f":
        nan = np.isnan(data)
        finite = np.isfinite(data)
    else:
        nan = np.zeros(data.shape, bool)
        finite = np.ones(data.shape, bool)
    ctx.check(isinstance(out, np.ma.MaskedArray), "not_masked_array", "result type %s" % type(out).__name__, **common)
    mask = np.ma.getmaskarray(out)
    raw = np.ma.getdata(out)
    ctx.check(out.shape == data.shape, "shape_changed", "%s -> %s" % (data.shape, out.shape), **common)
    if out.shape != data.shape:
        return
    ctx.check(bool(mask[nan].all()), "nan_unmasked", "NaN input came back unmasked (%s)" % tag, **common)
    fm = mask & finite
    ctx.check(not fm.any(), "finite_masked", lambda: "finite input %r masked (raw %r) (%s)" % (data[fm][:3].tolist(), raw[fm][:3].tolist(), tag), **common)
    ok = finite & ~mask
    v = raw[ok].astype(np.float64)
    x = data[ok]
    if v.size == 0:
        return
    ctx.close(max(0.0, float(v.max()) - 1.0, float(-v.min())), tol, "out_of_range", lambda: "outputs in [%r,%r] (%s)" % (float(v.min()), float(v.max()), tag), **common)
    order = np.argsort(x, kind="stable")
    xs, vs = x[order], v[order]
    # non-decreasing between inputs that differ
    # compare each output with the running max over all strictly smaller inputs
    cummax = np.maximum.accumulate(vs)
    first_equal = np.searchsorted(xs, xs, side="left")  # number of strictly smaller inputs
    last_smaller_max = np.where(first_equal > 0, cummax[np.maximum(first_equal - 1, 0)], -np.inf)
    drop = last_smaller_max - vs
    worst = float(np.max(drop)) if len(drop) else 0.0
    ctx.close(max(0.0, worst), tol, "non_monotone", lambda: "x=%r -> n=%r (%s)" % (xs[:6].tolist(), vs[:6].tolist(), tag), **common)


def _run_norm(spec, idx, ctx):
    cn = ctx.state["cn"]
    rng = ctx.rng(idx)
    data = _gen_values(rng, spec["dtype"], spec["family"])
    mode = spec["mode"]
    if mode == "preset":
        cfg = cn._resolve_normalization(spec["stretch"])
        kw = {k: getattr(cfg, k) for k in ("interval_type", "stretch_type", "lower_quantile", "upper_quantile", "vmin", "vmax", "vcenter", "half_range", "power", "logarithmic_index", "asinh_linear_range")}
    else:
        kw = _cfg(rng, spec["interval"], spec["stretch"], data)
    # the library converts bool images to float before normalising (visualization._show_2d_array)
    use = np.array(data, dtype="float") if data.dtype == bool else data
    if mode in ("data", "preset"):
        norm = cn.CustomNormalization(data=use, **kw)
        vmin, vmax = norm.vmin, norm.vmax
    else:
        norm = cn.CustomNormalization(**kw)
        vmin, vmax = norm.interval.get_limits(use)
    keep = use.copy()
    out = norm(use)
    ctx.check(np.array_equal(keep, use, equal_nan=True), "input_mutated", "normalisation modified its input array", dtype=str(use.dtype), interval=spec["interval"], stretch=spec["stretch"], mode=mode)
    _judge(ctx, spec, use, norm, out, "data")
    cm0 = {"dtype": str(use.dtype), "interval": spec["interval"], "stretch": spec["stretch"], "mode": mode}
    _stretch_in_use(ctx, norm, cm0)
    if idx % 5 == 3:
        _forms(ctx, cn, rng, use, kw, norm, out, mode, cm0)
    if kw.get("interval_type") == "quantile" and kw.get("vmin") is None and kw.get("vmax") is None:
        ql = kw.get("lower_quantile")
        qu = kw.get("upper_quantile")
        iv_obj = getattr(norm, "interval", None)
        ql = getattr(iv_obj, "lower_quantile", ql if ql is not None else 0.02)
        qu = getattr(iv_obj, "upper_quantile", qu if qu is not None else 0.98)
        _quantile_bracket(ctx, use, float(ql), float(qu), vmin, vmax, cm0)
    if use.dtype.kind == "f" and idx % 4 == 1 and use.size >= 6:
        # the same data handed over as a numpy masked array (dead-pixel mask, matplotlib's own calling convention): entries masked
        # by the caller may stay masked, but a NaN outside that mask must still come back masked and finite unmasked pixels judged as usual
        m_in = rng.random(use.shape) < 0.25
        if not m_in.any():
            m_in.flat[0] = True
        keepfin = np.flatnonzero(np.isfinite(use).ravel() & ~m_in.ravel())
        if len(np.unique(use.ravel()[keepfin])) >= 2:
            mo = norm(np.ma.MaskedArray(use.copy(), mask=m_in))
            mm = np.ma.getmaskarray(mo)
            nanpos = np.isnan(use) & ~m_in
            cm = {"dtype": str(use.dtype), "interval": spec["interval"], "stretch": spec["stretch"], "mode": mode}
            ctx.check(bool(mm[nanpos].all()), "nan_unmasked", "masked-array input: a NaN outside the caller's mask came back unmasked", **cm)
            okm = np.isfinite(use) & ~m_in & ~mm
            vv = np.ma.getdata(mo)[okm].astype(np.float64)
            if vv.size:
                ctx.close(max(0.0, float(vv.max()) - 1.0, float(-vv.min())), _tol(use.dtype), "out_of_range", lambda: "masked-array input: outputs in [%r,%r]" % (float(vv.min()), float(vv.max())), **cm)
    # limits the caller asked for are the interval's limits: data at or below a requested vmin -> 0, at or above a requested vmax -> 1
    if mode != "preset" and kw.get("interval_type") == "manual" and (kw.get("vmin") is not None or kw.get("vmax") is not None):
        rq0, rq1 = kw.get("vmin"), kw.get("vmax")
        o = np.ma.getdata(out).astype(np.float64)
        uf = use.astype(np.float64)
        okf = np.isfinite(uf) & ~np.ma.getmaskarray(out)
        eff0 = float(rq0) if rq0 is not None else float(uf[np.isfinite(uf)].min())
        eff1 = float(rq1) if rq1 is not None else float(uf[np.isfinite(uf)].max())
        if eff0 < eff1:
            cm = {"dtype": str(use.dtype), "interval": spec["interval"], "stretch": spec["stretch"], "mode": mode}
            if rq0 is not None:
                sel = okf & (uf <= eff0)
                ctx.close(float(np.abs(o[sel]).max()) if sel.any() else 0.0, _tol(use.dtype), "requested_vmin_not_honoured", lambda: "requested vmin=%r: data %r maps to %r" % (rq0, uf[sel][:3].tolist(), o[sel][:3].tolist()), **cm)
            if rq1 is not None:
                sel = okf & (uf >= eff1)
                ctx.close(float(np.abs(o[sel] - 1).max()) if sel.any() else 0.0, _tol(use.dtype), "requested_vmax_not_honoured", lambda: "requested vmax=%r: data %r maps to %r" % (rq1, uf[sel][:3].tolist(), o[sel][:3].tolist()), **cm)
    # limits -> 0 and 1
    fv0, fv1 = float(vmin), float(vmax)
    common = {"dtype": str(use.dtype), "interval": spec["interval"], "stretch": spec["stretch"], "mode": mode}
    # without data= the interval recomputes its limits from whatever array it is called with, so "the
    # interval's limits" are only a fixed pair when they are fully specified by the configuration
    fixed = mode != "direct" or spec["interval"] in ("manual_both", "manual_both_int", "centered_hr")
    if fixed and np.isfinite(fv0) and np.isfinite(fv1) and fv0 < fv1:
        tol = _tol(use.dtype)
        lim = np.array([fv0, fv1], dtype=np.float64)
        ol = np.ma.getdata(norm(lim)).astype(np.float64)
        ctx.close(abs(ol[0] - 0.0), _ltol(use.dtype), "limit_lo_not_0", lambda: "n(vmin=%r)=%r" % (fv0, float(ol[0])), **common)
        ctx.close(abs(ol[1] - 1.0), _ltol(use.dtype), "limit_hi_not_1", lambda: "n(vmax=%r)=%r" % (fv1, float(ol[1])), **common)
        # the same limits expressed in the data's own dtype when representable
        try:
            limd = np.array([vmin, vmax]).astype(use.dtype)
            if use.dtype.kind in "iuf" and np.all(limd.astype(np.float64) == lim):
                old = np.ma.getdata(norm(limd)).astype(np.float64)
                ctx.close(abs(old[0]), tol, "limit_lo_not_0", lambda: "n(vmin=%r as %s)=%r" % (fv0, use.dtype, float(old[0])), **common)
                ctx.close(abs(old[1] - 1.0), tol, "limit_hi_not_1", lambda: "n(vmax=%r as %s)=%r" % (fv1, use.dtype, float(old[1])), **common)
        except (OverflowError, ValueError):
            pass
        # probe grid in the data dtype: unique data values plus values beyond the limits
        if use.dtype.kind in "iu":
            info = np.iinfo(use.dtype)
            ext = [max(info.min, min(info.max, int(t))) for t in (fv0 - 3, fv0 - 1, fv0, fv0 + 1, (fv0 + fv1) / 2, fv1 - 1, fv1, fv1 + 1, fv1 + 3)]
            grid = np.unique(np.concatenate([use.ravel(), np.array(ext, dtype=use.dtype), np.array([info.min, info.max], dtype=use.dtype)]))
        else:
            span = fv1 - fv0
            g = np.concatenate([np.linspace(fv0 - 0.5 * span, fv1 + 0.5 * span, 41), use[np.isfinite(use)].ravel().astype(np.float64)])
            with np.errstate(over="ignore"):
                grid = np.unique(g.astype(use.dtype))
            grid = grid[np.isfinite(grid)]
        _judge(ctx, spec, grid, norm, norm(grid), "probe-grid")
    if mode == "direct":
        # history: a normalisation built without data= derives its limits from each array it is called with; reusing the object on an
        # array with another range (as list_of_arrays_to_rgba does for every image of a list) must give what a fresh object gives
        other = _gen_values(rng, spec["dtype"], FAMILIES[int(rng.integers(len(FAMILIES)))])
        if other.dtype == bool:
            other = np.array(other, dtype="float")
        if other.dtype.kind == "f":
            other = other * other.dtype.type(rng.choice([0.01, 1.0, 37.0])) + other.dtype.type(rng.choice([0.0, 5.0, -100.0]))
        elif other.dtype.itemsize >= 2:
            other = (other // 3 + other.dtype.type(7)).astype(other.dtype)
        fin_o = other[np.isfinite(other)] if other.dtype.kind == "f" else other.ravel()
        if len(np.unique(fin_o)) < 2 or (other.dtype.kind == "f" and float(np.abs(fin_o.astype(np.float64)).max()) > 0.01 * float(np.finfo(other.dtype).max) and other.dtype != np.float16):
            ctx.count("reuse_second_array_outside_domain")
            other = None
    if mode == "direct" and other is not None:
        if idx % 3 == 0:
            # state after an error: a call that fails (no finite value to take limits from) or is merely useless, caught by the
            # caller, must not change what the object does afterwards
            for bad in (np.full((3,), np.nan), np.array([], dtype=np.float64), "not an array"):
                try:
                    norm(bad)
                    ctx.count("bad_input_accepted")
                except Exception:  # noqa: BLE001
                    ctx.count("bad_input_raised")
        reused = norm(other)
        fresh = cn.CustomNormalization(**kw)(other)
        same = np.array_equal(np.ma.getmaskarray(reused), np.ma.getmaskarray(fresh)) and np.allclose(np.ma.getdata(reused)[~np.ma.getmaskarray(reused)].astype(np.float64), np.ma.getdata(fresh)[~np.ma.getmaskarray(fresh)].astype(np.float64), rtol=0, atol=1e-12, equal_nan=True)
        ctx.check(same, "reused_object_differs_from_fresh", lambda: "second array through the same CustomNormalization object differs from a fresh object with the same configuration: %r vs %r" % (np.ma.getdata(reused).ravel()[:5].tolist(), np.ma.getdata(fresh).ravel()[:5].tolist()), dtype=str(other.dtype), interval=spec["interval"], stretch=spec["stretch"], mode=mode)
        _judge(ctx, spec, other, norm, reused, "second array through the same object")
    nd = len(np.unique(use[np.isfinite(use)])) if use.dtype.kind == "f" else len(np.unique(use))
    hostile = (use.dtype.kind == "f" and not np.isfinite(use).all()) or kw.get("stretch_type", "linear") != "linear" or kw.get("power", 1.0) != 1.0
    ctx.nontrivial(("norm", spec["dtype"], spec["interval"], spec["stretch"], mode, spec["family"]), nd >= 3 and hostile)
    ctx.observe(n=int(use.size), distinct=nd, vmin=fv0, vmax=fv1, kw=kw)


def _run_stretch(spec, idx, ctx):
    cn = ctx.state["cn"]
    rng = ctx.rng(idx)
    cls = getattr(cn, spec["cls"])
    name = spec["cls"]
    if spec.get("default"):
        s = cls()
        par = "default"
    elif name == "LinearStretch":
        slope = float(rng.uniform(0.05, 1.0))
        intercept = float(rng.uniform(0.0, 1.0 - slope))
        s = cls(slope, intercept)
        par = (slope, intercept)
    elif name == "PowerLawStretch":
        par = float(10 ** rng.uniform(-1, np.log10(5)))
        s = cls(par)
    elif name in ("LogarithmicStretch", "InverseLogarithmicStretch"):
        par = float(10 ** rng.uniform(-3, 6))
        s = cls(par)
    elif name == "InverseHyperbolicSineStretch":
        par = float(10 ** rng.uniform(-4, 1))
        s = cls(par)
    else:  # HyperbolicSineStretch
        par = float(10 ** rng.uniform(np.log10(0.05), 1))  # conditioning grows like exp(1/a)
        s = cls(par)
    y = np.unique(np.concatenate([[0.0, 1.0, 0.5], rng.uniform(0, 1, 60), np.linspace(0, 1, 21)]))
    inv = s.inverse
    common = {"cls": name}
    if name == "LinearStretch" and not spec.get("default"):
        lo, hi = s.intercept, s.slope + s.intercept
        yy = y * (hi - lo) + lo  # the image of s
    else:
        yy = y
    a = np.asarray(s(np.asarray(inv(yy.copy())).copy()), dtype=np.float64)
    ctx.close(float(np.max(np.abs(a - yy))), 1e-8, "stretch_of_inverse", lambda: "%s(%r): max|s(s^-1(y))-y|" % (name, par), **common)
    b = np.asarray(inv(np.asarray(s(y.copy())).copy()), dtype=np.float64)
    ctx.close(float(np.max(np.abs(b - y))), 1e-8, "inverse_of_stretch", lambda: "%s(%r): max|s^-1(s(y))-y|" % (name, par), **common)
    # a stretch maps [0,1] monotonically onto [0,1]
    sy = np.asarray(s(y.copy()), dtype=np.float64)
    if not (name == "LinearStretch" and not spec.get("default")):
        ctx.close(max(abs(sy[0]), abs(sy[-1] - 1.0)), 1e-9, "stretch_endpoints", lambda: "%s(%r): s(0)=%r s(1)=%r" % (name, par, sy[0], sy[-1]), **common)
    ctx.close(max(0.0, float(np.max(sy[:-1] - sy[1:]))), 1e-12, "stretch_non_monotone", lambda: "%s(%r)" % (name, par), **common)
    # history on one object: the fields of these dataclasses are public and mutable; after changing the parameter the declared
    # inverse must be the inverse of the *current* stretch
    if name != "LinearStretch":
        field = "power" if name == "PowerLawStretch" else "a"
        oldv = getattr(s, field)
        newv = float(oldv * (3.0 if oldv < 1 else 1 / 3.0))
        if name == "HyperbolicSineStretch":
            newv = float(min(max(newv, 0.05), 10.0))
        setattr(s, field, newv)
        inv2 = s.inverse
        a2 = np.asarray(s(np.asarray(inv2(y.copy())).copy()), dtype=np.float64)
        ctx.close(float(np.max(np.abs(a2 - y))), 1e-8, "stretch_of_inverse_after_update", lambda: "%s: parameter %r -> %r, max|s(s^-1(y))-y|" % (name, oldv, newv), **common)
        b2 = np.asarray(inv2(np.asarray(s(y.copy())).copy()), dtype=np.float64)
        ctx.close(float(np.max(np.abs(b2 - y))), 1e-8, "inverse_of_stretch_after_update", lambda: "%s: parameter %r -> %r, max|s^-1(s(y))-y|" % (name, oldv, newv), **common)
    # state after an error: an assignment that the object *rejects* (raises) must leave it as it was; one that is silently accepted
    # puts the object outside the property's parameter domain and is undone by the harness
    if name != "LinearStretch":
        field = "power" if name == "PowerLawStretch" else "a"
        cur = getattr(s, field)
        for bad in (0, -2.0, float("nan")):
            try:
                setattr(s, field, bad)
            except Exception:  # noqa: BLE001
                ctx.count("invalid_parameter_assignment_rejected")
                kept = getattr(s, field)
                ctx.check(kept == cur, "rejected_assignment_changed_state", lambda: "%s.%s = %r raised but the attribute is now %r (was %r)" % (name, field, bad, kept, cur), **common)
                a3 = np.asarray(s(np.asarray(s.inverse(y.copy())).copy()), dtype=np.float64)
                ctx.close(float(np.max(np.abs(a3 - y))), 1e-8, "stretch_of_inverse_after_rejected_assignment", lambda: "%s after rejected %s = %r" % (name, field, bad), **common)
            else:
                ctx.count("invalid_parameter_assignment_accepted_and_undone")
            setattr(s, field, cur)
    ctx.nontrivial(("stretch_inv", name, "default" if spec.get("default") else "p%d" % (idx % 7)), not spec.get("default"))
    ctx.observe(cls=name, par=par)


def _run_combined(spec, idx, ctx):
    """the library's CustomNormalization.inverse is the pseudo-inverse used for colour bars: n^-1(n(x)) = x inside the limits."""
    cn = ctx.state["cn"]
    rng = ctx.rng(idx)
    st = STRETCHES[int(rng.integers(len(STRETCHES)))]
    data = rng.normal(size=40) * 10.0 ** rng.uniform(-1, 2)
    kw = _cfg(rng, "manual_none", st, data)
    norm = cn.CustomNormalization(data=data, **kw)
    out = norm(data)
    back = np.asarray(norm.inverse(np.ma.getdata(out).copy()), dtype=np.float64)
    scale = float(np.max(np.abs(data)))
    ctx.close(float(np.max(np.abs(back - data))) / scale, 1e-7, "norm_inverse_roundtrip", lambda: "stretch=%s kw=%r" % (st, kw), stretch=st)
    ctx.nontrivial(("combined", st), st != "linear")
    ctx.observe(kw=kw)


def _run_big(spec, idx, ctx):
    """Large arrays whose values depend on the pixel position modulo a small period (interlaced rows / columns, fringes): limits
    and outputs must be those of the whole data whatever the size."""
    cn = ctx.state["cn"]
    rng = ctx.rng(idx)
    n, per = int(spec["size"]), int(spec["period"])
    dtype = np.dtype(spec["dtype"])
    levels = np.sort(rng.uniform(0.0, 40.0, size=per))
    levels[rng.integers(per)] += 60.0  # one phase of the pattern is much brighter
    pos = np.arange(n) % per
    data = levels[pos] * 20.0 + rng.uniform(0.0, 15.0, size=n)
    if dtype.kind == "f" and idx % 2 == 0:
        data[rng.integers(0, n, size=50)] = np.nan
    data = data.astype(dtype)
    if idx % 3 == 0:
        data = data[: (n // 1024) * 1024].reshape(1024, -1)
    kw = _cfg(rng, spec["interval"], spec["stretch"], data[..., : 4096] if data.ndim == 1 else data[:4])
    if spec["interval"] == "centered":
        kw["vcenter"] = float(np.nanmedian(data[..., :4096].astype(np.float64)))
    common = {"dtype": str(dtype), "interval": spec["interval"], "stretch": spec["stretch"], "mode": "big"}
    norm = cn.CustomNormalization(data=data, **kw)
    out = norm(data)
    _judge(ctx, {"interval": spec["interval"], "stretch": spec["stretch"], "mode": "big"}, data, norm, out, "big n=%d period=%d" % (n, per))
    vmin, vmax = float(norm.vmin), float(norm.vmax)
    if kw.get("interval_type") == "quantile":
        iv_obj = norm.interval
        _quantile_bracket(ctx, data, float(getattr(iv_obj, "lower_quantile", kw.get("lower_quantile", 0.02))), float(getattr(iv_obj, "upper_quantile", kw.get("upper_quantile", 0.98))), vmin, vmax, common)
    elif kw.get("interval_type") == "manual":
        fin = data[np.isfinite(data)].astype(np.float64) if dtype.kind == "f" else data.astype(np.float64)
        ctx.close(max(abs(vmin - float(fin.min())), abs(vmax - float(fin.max()))), 1e-9 * float(fin.max() - fin.min()), "minmax_limits_not_data_extremes",
                  lambda: "limits (%r, %r) vs data extremes (%r, %r)" % (vmin, vmax, float(fin.min()), float(fin.max())), **common)
    # the limits do not depend on the order of the pixels: the same pixels shuffled
    sh = data.ravel().copy()
    rng.shuffle(sh)
    n2 = cn.CustomNormalization(data=sh, **kw)
    span = max(vmax - vmin, 1e-300)
    ctx.close(max(abs(float(n2.vmin) - vmin), abs(float(n2.vmax) - vmax)) / span, 1e-6, "limits_depend_on_pixel_order", lambda: "limits (%r, %r) vs shuffled pixels (%r, %r)" % (vmin, vmax, float(n2.vmin), float(n2.vmax)), **common)
    if vmin < vmax:
        ol = np.ma.getdata(norm(np.array([vmin, vmax], dtype=np.float64))).astype(np.float64)
        ctx.close(max(abs(ol[0]), abs(ol[1] - 1.0)), _ltol(dtype), "limit_lo_not_0" if abs(ol[0]) > abs(ol[1] - 1.0) else "limit_hi_not_1", lambda: "n(limits)=%r" % ol.tolist(), **common)
    ctx.nontrivial(("big", spec["dtype"], spec["interval"], spec["stretch"], int(np.log2(n))), True)
    ctx.observe(n=n, period=per, vmin=vmin, vmax=vmax, kw=kw)


def _run_pedestal(spec, idx, ctx):
    """Weak contrast on a large pedestal: the limits are exact data values, so they (and the extreme pixels) map to exactly 0 and 1
    up to a few ulp in any working precision."""
    cn = ctx.state["cn"]
    rng = ctx.rng(idx)
    dtype = np.dtype(spec["dtype"])
    R = 10.0 ** float(spec["ratio_exp"]) * (1.0 if dtype == np.float32 else 1e6)
    c = float(10.0 ** rng.uniform(-2, 2))
    sign = -1.0 if idx % 5 == 4 else 1.0
    shape = (int(rng.integers(4, 12)), int(rng.integers(4, 12)))
    data = (sign * R * c + c * rng.uniform(0.0, 1.0, size=shape)).astype(dtype)
    if len(np.unique(data)) < 4:
        ctx.count("pedestal_contrast_below_resolution")
        return
    kw = {"stretch_type": spec["stretch"]}
    if spec["stretch"] == "power":
        kw["power"] = float(rng.choice([0.5, 2.0, 0.3]))
    srt = np.unique(data)
    if spec["interval"] == "manual_both":
        kw.update(interval_type="manual", vmin=float(srt[1]), vmax=float(srt[-2]))  # exactly representable in the data's dtype
    elif spec["interval"] == "quantile_wide":
        kw.update(interval_type="quantile", lower_quantile=0.0, upper_quantile=1.0)
    else:
        kw.update(interval_type="manual")
    common = {"dtype": str(dtype), "interval": spec["interval"], "stretch": spec["stretch"], "mode": "pedestal"}
    norm = cn.CustomNormalization(data=data, **kw) if idx % 2 == 0 else cn.CustomNormalization(**kw)
    out = norm(data)
    _judge(ctx, {"interval": spec["interval"], "stretch": spec["stretch"], "mode": "pedestal"}, data, norm, out, "pedestal ratio %.3g" % R)
    lo = srt[1] if spec["interval"] == "manual_both" else srt[0]
    hi = srt[-2] if spec["interval"] == "manual_both" else srt[-1]
    o = np.ma.getdata(out).astype(np.float64)
    tol = 16 * float(np.finfo(dtype).eps)
    ctx.close(float(np.abs(o[data <= lo]).max()), tol, "limit_lo_not_0", lambda: "pixels at the lower limit %r (pedestal/contrast %.3g) map to %r" % (float(lo), R, o[data <= lo][:3].tolist()), **common)
    ctx.close(float(np.abs(o[data >= hi] - 1.0).max()), tol, "limit_hi_not_1", lambda: "pixels at the upper limit %r (pedestal/contrast %.3g) map to %r" % (float(hi), R, o[data >= hi][:3].tolist()), **common)
    if spec["stretch"] == "linear":
        # between the limits the linear stretch is the linear map (judged in the data's precision)
        ref = np.clip((data.astype(np.float64) - float(lo)) / (float(hi) - float(lo)), 0.0, 1.0)
        ctx.close(float(np.abs(o - ref).max()), tol, "linear_map_mismatch", lambda: "max deviation from (x-vmin)/(vmax-vmin): %.3g (pedestal/contrast %.3g)" % (float(np.abs(o - ref).max()), R), **common)
    ctx.nontrivial(("pedestal", spec["dtype"], spec["interval"], spec["stretch"], spec["ratio_exp"]), True)
    ctx.observe(ratio=R, contrast=c, kw=kw)


def _viz_setup(ctx):
    from vf import hook

    viz = ctx.state.get("viz")
    if viz is None:
        from quantem.core.visualization import visualization as viz

        ctx.state["viz"] = viz
        cap = ctx.state["viz_cap"] = {}

        def pre_array(a, k):
            cap["scaled"] = a[0]
            return None

        def pre_list(a, k):
            cap["norm"] = k.get("norm")
            cap["arrays"] = a[0]
            return None

        # the names as bound inside visualization.py (from ... import ...)
        hook.wrap(viz, "array_to_rgba", pre=pre_array, ctx=ctx, also_patch_importers=False)
        hook.wrap(viz, "list_of_arrays_to_rgba", pre=pre_list, ctx=ctx, also_patch_importers=False)
    return viz


def _run_viz(spec, idx, ctx):
    """In situ: what the plotting entry points hand to the colour conversion must be the requested normalisation of the data."""
    from matplotlib.figure import Figure

    viz = _viz_setup(ctx)
    cap = ctx.state["viz_cap"]
    cap.clear()
    rng = ctx.rng(idx)
    fam = FAMILIES[int(rng.integers(len(FAMILIES)))]
    shape = (int(rng.integers(3, 9)), int(rng.integers(3, 9)))
    data = _gen_values(rng, spec["dtype"], fam).ravel()
    data = np.resize(data, shape)
    fin = data[np.isfinite(data)].astype(np.float64) if data.dtype.kind == "f" else data.astype(np.float64).ravel()
    lo, hi = float(fin.min()), float(fin.max())
    span = max(hi - lo, 1e-6)
    kwargs, norm_arg, want = {}, None, None
    st = spec["stretch"]
    lim = spec["limits"]
    if lim == "both":
        vmin = lo + span * float(rng.uniform(0.05, 0.4))
        vmax = vmin + span * float(rng.uniform(0.05, 0.5))
        if rng.random() < 0.5:
            kwargs = {"vmin": vmin, "vmax": vmax}
            if st != "linear":
                kwargs["stretch_type"] = st
        else:
            norm_arg = {"interval_type": "manual", "stretch_type": st, "vmin": vmin, "vmax": vmax}
        want = (vmin, vmax)
    elif lim == "preset":
        norm_arg = PRESETS[int(rng.integers(len(PRESETS)))]
    elif lim == "quantiles":
        kwargs = {"lower_quantile": float(rng.choice([0.0, 0.05, 0.2])), "upper_quantile": float(rng.choice([1.0, 0.95, 0.8]))}
    fig = Figure(figsize=(2, 2))
    ax = fig.subplots()
    common = {"entry": spec["entry"], "dtype": str(data.dtype), "limits": lim, "stretch": st, "interval": "viz", "mode": "viz"}
    vspec = {"dtype": spec["dtype"], "interval": "viz:" + lim, "stretch": st, "mode": "viz:" + spec["entry"]}
    if spec["entry"] == "array":
        viz._show_2d_array(data, norm=norm_arg, figax=(fig, ax), **kwargs)
        out = cap.get("scaled")
        ctx.check(out is not None, "viz_hook_not_reached", "array_to_rgba was not called by _show_2d_array", **common)
        if out is None:
            return
        _judge(ctx, vspec, data, None, out, "in situ: _show_2d_array -> array_to_rgba")
        arrays, norm = [data], None
        outs = [np.ma.getdata(out).astype(np.float64)]
    else:
        other = np.resize(_gen_values(rng, spec["dtype"], fam).ravel(), shape)
        viz._show_2d_combined([data, other], norm=norm_arg, figax=(fig, ax), **kwargs)
        norm = cap.get("norm")
        ctx.check(norm is not None, "viz_hook_not_reached", "list_of_arrays_to_rgba was not called with a norm by _show_2d_combined", **common)
        if norm is None:
            return
        arrays = [data, other]
        outs = []
        for a in arrays:
            o = norm(a)
            _judge(ctx, vspec, a, norm, o, "in situ: norm handed to list_of_arrays_to_rgba by _show_2d_combined")
            outs.append(np.ma.getdata(o).astype(np.float64))
    if want is not None:
        # the requested limits must be honoured: data <= vmin -> 0, data >= vmax -> 1, strictly inside -> strictly inside
        tol = _tol(data.dtype) if data.dtype != np.float32 else 2e-4
        for a, o in zip(arrays, outs):
            af = a.astype(np.float64)
            ok = np.isfinite(af)
            below, above, inside = ok & (af <= want[0]), ok & (af >= want[1]), ok & (af > want[0] + 1e-3 * span) & (af < want[1] - 1e-3 * span)
            ctx.close(float(np.abs(o[below]).max()) if below.any() else 0.0, tol, "requested_vmin_not_honoured", lambda: "data <= vmin=%r maps to %r" % (want[0], o[below][:3].tolist()), **common)
            ctx.close(float(np.abs(o[above] - 1).max()) if above.any() else 0.0, tol, "requested_vmax_not_honoured", lambda: "data >= vmax=%r maps to %r" % (want[1], o[above][:3].tolist()), **common)
            ctx.check(bool(np.all((o[inside] > 0) & (o[inside] < 1))), "requested_limits_not_honoured", lambda: "data strictly inside (vmin,vmax)=(%r,%r) maps to %r" % (want[0], want[1], o[inside][:4].tolist()), **common)
    nd = len(np.unique(fin))
    ctx.nontrivial(("viz", spec["entry"], spec["dtype"], lim, st), nd >= 3)
    ctx.observe(entry=spec["entry"], limits=lim, want=want, norm=norm_arg, kwargs=kwargs)


def run_case(spec, idx, ctx):
    with np.errstate(all="ignore"):
        if spec["kind"] == "norm":
            _run_norm(spec, idx, ctx)
        elif spec["kind"] == "stretch_inv":
            _run_stretch(spec, idx, ctx)
        elif spec["kind"] == "viz":
            _run_viz(spec, idx, ctx)
        elif spec["kind"] == "big":
            _run_big(spec, idx, ctx)
        elif spec["kind"] == "pedestal":
            _run_pedestal(spec, idx, ctx)
        elif spec["kind"] == "lifetime":
            from vf.props import c20_lifetime

            c20_lifetime.run(spec, idx, ctx, sys.modules[__name__])
        else:
            _run_combined(spec, idx, ctx)
