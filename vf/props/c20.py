"""C20 — display normalisation is a monotone map into [0,1] with invertible stretches.

Oracle: order/range predicates evaluated on the outputs of the real CustomNormalization driven the
way the library drives it (limits from `data=`), plus direct calls, presets and stretch∘inverse.
"""
from __future__ import annotations

import itertools

import numpy as np

PROPERTY = "C20"
LEVEL = "exploration"
ANCHOR_FILES = ["quantem/core/visualization/custom_normalizations.py", "quantem/core/visualization/visualization.py"]
RULE = (
    "seeded matrix over dtype x interval x stretch x value-family x entry mode (data= / direct call / preset via "
    "_resolve_normalization) plus stretch-inverse cases; non-trivial = >=3 distinct finite values and (NaN/inf present or "
    "non-linear stretch) or a stretch-inverse case with a non-default parameter; distinct = (kind, dtype, interval, stretch, mode, family)"
)
ASSUMPTIONS = [
    "float32 inputs are judged with a 2e-4 range tolerance (arithmetic runs in the input precision); float64/integer inputs with 1e-9",
    "order is judged only between inputs that differ; +-inf inputs are not judged themselves but must not disturb finite ones",
    "limits are judged only when vmin < vmax (heavy ties can make quantile limits coincide)",
    "LinearStretch slope/intercept only where [0,1] maps into [0,1] (the class clips its input)",
]
BUDGET = {"quick": {"soft_s": 120}, "thorough": {"soft_s": 900}}
MIN_EVALUATIONS = {"quick": 500, "thorough": 5000}

DTYPES = ["bool", "int8", "uint8", "int16", "uint16", "int32", "uint32", "int64", "uint64", "float16", "float32", "float64"]
INTERVALS = ["manual_none", "manual_lo", "manual_hi", "manual_both", "manual_both_int", "quantile", "quantile_wide", "centered", "centered_hr"]
STRETCHES = ["linear", "power", "logarithmic", "asinh"]
FAMILIES = ["uniform", "ties", "wide", "nan", "inf", "halfrange", "sparse"]
MODES = ["data", "direct", "preset"]
PRESETS = ["linear_auto", "quantile", "linear_minmax", "minmax", "linear_centered", "log_auto", "log_minmax", "power_squared", "power_sqrt", "asinh_centered"]
STRETCH_CLASSES = ["LinearStretch", "PowerLawStretch", "LogarithmicStretch", "InverseLogarithmicStretch", "InverseHyperbolicSineStretch", "HyperbolicSineStretch"]


def plan(tier, seed):
    rng = np.random.default_rng([seed, 20, 999])
    specs = []
    combos = list(itertools.product(DTYPES, INTERVALS, STRETCHES))
    reps = 3 if tier == "quick" else 2000
    for dt, iv, st in combos:
        for r in range(reps):
            fam = FAMILIES[int(rng.integers(len(FAMILIES)))]
            mode = "data" if r % 3 != 1 else "direct"
            specs.append({"kind": "norm", "dtype": dt, "interval": iv, "stretch": st, "family": fam, "mode": mode})
    for dt in DTYPES:
        for p in PRESETS:
            for r in range(2 if tier == "quick" else 100):
                specs.append({"kind": "norm", "dtype": dt, "interval": "preset", "stretch": p, "family": FAMILIES[int(rng.integers(len(FAMILIES)))], "mode": "preset"})
    for cls in STRETCH_CLASSES:
        for r in range(20 if tier == "quick" else 2000):
            specs.append({"kind": "stretch_inv", "cls": cls, "default": r == 0})
    for r in range(10 if tier == "quick" else 500):
        specs.append({"kind": "combined"})
    # the normalisation as the plotting entry points construct it (in situ, through wrappers on the rgba converters)
    for r in range(60 if tier == "quick" else 1500):
        specs.append({"kind": "viz", "entry": "array" if r % 2 == 0 else "combined", "dtype": DTYPES[1:][r % (len(DTYPES) - 1)], "stretch": STRETCHES[(r // 2) % 4],
                      "limits": ["both", "none", "preset", "quantiles"][(r // 3) % 4]})
    return specs


def setup(ctx):
    from quantem.core.visualization import custom_normalizations as cn

    ctx.state["cn"] = cn


# ------------------------------------------------------------------------------------------------


def _gen_values(rng, dt, fam):
    dtype = np.dtype(dt)
    shape = tuple(int(x) for x in rng.integers(1, 7, size=int(rng.integers(1, 4))))
    n = int(np.prod(shape))
    if n < 3:
        shape, n = (5,), 5
    if fam == "sparse":
        # a flat image with < 2 % outlier pixels: the default quantile limits coincide although the data is not constant
        shape = (int(rng.integers(8, 13)), int(rng.integers(8, 13)))
        n = shape[0] * shape[1]
        if dtype.kind == "b":
            a = np.zeros(n, bool)
            a[int(rng.integers(n))] = True
            return a.reshape(shape)
        base = int(rng.integers(0, 60))
        a = np.full(n, base, dtype=np.float64)
        a[int(rng.integers(n))] = base + int(rng.integers(2, 60)) * (1 if dtype.kind == "u" or rng.random() < 0.5 else -1)
        if dtype.kind == "u":
            a = np.abs(a)
        a = a.astype(dtype)
        if dtype.kind == "f" and rng.random() < 0.5:
            # coinciding limits *and* invalid pixels: the degenerate branch must still mask NaN
            free = np.flatnonzero(a == dtype.type(base))
            a[rng.choice(free, size=int(rng.integers(1, 4)), replace=False)] = np.nan
        return a.reshape(shape)
    if dtype.kind == "b":
        a = rng.integers(0, 2, size=n).astype(bool)
        a[:2] = [False, True]
        return a.reshape(shape)
    if dtype.kind in "iu":
        info = np.iinfo(dtype)
        lo, hi = int(info.min), int(info.max)
        if fam == "ties":
            base = rng.integers(max(lo, -50), min(hi, 50), size=3)
            a = rng.choice(base, size=n)
        elif fam in ("wide", "halfrange"):
            # range exceeds the positive half of the dtype (signed wrap territory)
            l2, h2 = (int(lo * 0.8), int(hi * 0.8)) if dtype.itemsize < 8 else ((-(2**62), 2**62) if dtype.kind == "i" else (0, 2**63))
            a = rng.integers(l2, h2, size=n, dtype=np.int64 if dtype != np.uint64 else np.uint64)
        else:
            l2, h2 = max(lo, -1000), min(hi, 1000)
            a = rng.integers(l2, h2, size=n)
        a = np.asarray(a).astype(dtype)
        if len(np.unique(a)) < 2:
            a[0] = a[0] - 1 if a[0] > lo else a[0] + 1
        return a.reshape(shape)
    # floats
    fi = np.finfo(dtype)
    if fam == "ties":
        a = rng.choice(rng.normal(size=3), size=n)
    elif fam == "wide":
        ex = {2: 4, 4: 30, 8: 200}[dtype.itemsize]
        a = rng.normal(size=n) * 10.0 ** rng.uniform(-ex / 2, ex / 2 if dtype.itemsize > 2 else 4, size=n)
    elif fam == "halfrange":
        top = float(fi.max) * (0.4 if dtype.itemsize == 2 else 0.01)  # float16 is promoted by the library; wider floats must not overflow their own span
        a = rng.uniform(-top, top, size=n)
    else:
        a = rng.normal(size=n) * 10.0 ** rng.uniform(-2, 3)
    a = a.astype(dtype)
    if fam == "nan":
        k = int(rng.integers(1, max(2, n // 3)))
        a[rng.choice(n, size=min(k, n - 2), replace=False)] = np.nan
    if fam == "inf":
        k = int(rng.integers(1, max(2, n // 3)))
        idx = rng.choice(n, size=min(k, n - 2), replace=False)
        a[idx] = np.where(rng.random(len(idx)) < 0.5, np.inf, -np.inf).astype(dtype)
        if rng.random() < 0.5 and n > 4:
            fin = np.flatnonzero(np.isfinite(a))
            if len(fin) > 2:
                a[fin[0]] = np.nan
    fin = a[np.isfinite(a)]
    if len(np.unique(fin)) < 2:
        fl = np.flatnonzero(np.isfinite(a))
        if len(fl) < 2:
            a[:2] = [0.0, 1.0]
        else:
            a[fl[0]] = a[fl[1]] + dtype.type(1.0)
    return a.reshape(shape)


def _cfg(rng, iv, st, data):
    fin = data[np.isfinite(data)] if data.dtype.kind == "f" else data.ravel()
    finf = fin.astype(np.float64)
    lo, hi = float(finf.min()), float(finf.max())
    span = hi - lo
    kw = {}
    if iv.startswith("manual"):
        kw["interval_type"] = "manual"
        a = lo + span * float(rng.uniform(-0.2, 0.6))
        b = a + span * float(rng.uniform(0.05, 0.9)) + (1e-6 if span == 0 else 0.0)
        if iv == "manual_both_int" or (data.dtype.kind in "iu" and rng.random() < 0.5 and iv != "manual_none"):
            a, b = int(np.floor(a)), int(np.floor(a)) + max(1, int(np.ceil(b - a)))
        if lo < 0 < hi and rng.random() < 0.3:
            # a limit of exactly zero (int or float) is a limit like any other
            z = 0 if rng.random() < 0.5 else 0.0
            if iv == "manual_lo" or (iv != "manual_hi" and rng.random() < 0.5):
                a, b = z, (max(b, 0.1 * hi) if b > 0 else 0.5 * hi)
            else:
                a, b = (min(a, 0.1 * lo) if a < 0 else 0.5 * lo), z
        if iv in ("manual_lo", "manual_both", "manual_both_int"):
            kw["vmin"] = a
        if iv in ("manual_hi", "manual_both", "manual_both_int"):
            kw["vmax"] = b
    elif iv.startswith("quantile"):
        kw["interval_type"] = "quantile"
        if iv == "quantile_wide":
            ql = float(rng.choice([0.0, 0.0, 0.1, 0.3]))
            qu = float(rng.choice([1.0, 1.0, 0.9, 0.7]))
            kw["lower_quantile"], kw["upper_quantile"] = ql, qu
    elif iv.startswith("centered"):
        kw["interval_type"] = "centered"
        kw["vcenter"] = float(lo + span * rng.uniform(0, 1)) if rng.random() < 0.7 else 0.0
        if iv == "centered_hr":
            kw["half_range"] = float(max(span, 1e-3) * rng.uniform(0.1, 1.5))
    kw["stretch_type"] = st
    if st == "power":
        kw["power"] = float(10 ** rng.uniform(-1, np.log10(5)))
    elif st == "logarithmic":
        kw["logarithmic_index"] = float(10 ** rng.uniform(-3, 6))
    elif st == "asinh":
        kw["asinh_linear_range"] = float(10 ** rng.uniform(-4, 1))
    return kw


def _tol(dtype):
    if dtype == np.float32:
        return 2e-4  # measured overshoot 5e-5 for logarithmic a~1e-3 (cancellation in log(a*x+1) in float32)
    return 1e-9  # float64, integers and float16 (which the library promotes to float64)


def _ltol(dtype):
    # limits evaluated in float64 against limits the library stores in the data's precision
    return 1e-5 if dtype == np.float32 else 1e-9


def _judge(ctx, spec, data, norm, out, tag):
    dt = str(data.dtype)
    tol = _tol(data.dtype)
    common = {"dtype": dt, "interval": spec["interval"], "stretch": spec["stretch"], "mode": spec["mode"]}
    if data.dtype.kind == "f":
        nan = np.isnan(data)
        finite = np.isfinite(data)
    else:
        nan = np.zeros(data.shape, bool)
        finite = np.ones(data.shape, bool)
    ctx.check(isinstance(out, np.ma.MaskedArray), "not_masked_array", "result type %s" % type(out).__name__, **common)
    mask = np.ma.getmaskarray(out)
    raw = np.ma.getdata(out)
    ctx.check(out.shape == data.shape, "shape_changed", "%s -> %s" % (data.shape, out.shape), **common)
    if out.shape != data.shape:
        return
    ctx.check(bool(mask[nan].all()), "nan_unmasked", "NaN input came back unmasked (%s)" % tag, **common)
    fm = mask & finite
    ctx.check(not fm.any(), "finite_masked", lambda: "finite input %r masked (raw %r) (%s)" % (data[fm][:3].tolist(), raw[fm][:3].tolist(), tag), **common)
    ok = finite & ~mask
    v = raw[ok].astype(np.float64)
    x = data[ok]
    if v.size == 0:
        return
    ctx.close(max(0.0, float(v.max()) - 1.0, float(-v.min())), tol, "out_of_range", lambda: "outputs in [%r,%r] (%s)" % (float(v.min()), float(v.max()), tag), **common)
    order = np.argsort(x, kind="stable")
    xs, vs = x[order], v[order]
    # non-decreasing between inputs that differ
    # compare each output with the running max over all strictly smaller inputs
    last_smaller_max = np.empty_like(vs)
    cur = -np.inf
    j = 0
    for i in range(len(xs)):
        while j < i and xs[j] < xs[i]:
            cur = max(cur, vs[j])
            j += 1
        last_smaller_max[i] = cur
    drop = last_smaller_max - vs
    worst = float(np.max(drop)) if len(drop) else 0.0
    ctx.close(max(0.0, worst), tol, "non_monotone", lambda: "x=%r -> n=%r (%s)" % (xs[:6].tolist(), vs[:6].tolist(), tag), **common)


def _run_norm(spec, idx, ctx):
    cn = ctx.state["cn"]
    rng = ctx.rng(idx)
    data = _gen_values(rng, spec["dtype"], spec["family"])
    mode = spec["mode"]
    if mode == "preset":
        cfg = cn._resolve_normalization(spec["stretch"])
        kw = {k: getattr(cfg, k) for k in ("interval_type", "stretch_type", "lower_quantile", "upper_quantile", "vmin", "vmax", "vcenter", "half_range", "power", "logarithmic_index", "asinh_linear_range")}
    else:
        kw = _cfg(rng, spec["interval"], spec["stretch"], data)
    # the library converts bool images to float before normalising (visualization._show_2d_array)
    use = np.array(data, dtype="float") if data.dtype == bool else data
    if mode in ("data", "preset"):
        norm = cn.CustomNormalization(data=use, **kw)
        vmin, vmax = norm.vmin, norm.vmax
    else:
        norm = cn.CustomNormalization(**kw)
        vmin, vmax = norm.interval.get_limits(use)
    keep = use.copy()
    out = norm(use)
    ctx.check(np.array_equal(keep, use, equal_nan=True), "input_mutated", "normalisation modified its input array", dtype=str(use.dtype), interval=spec["interval"], stretch=spec["stretch"], mode=mode)
    _judge(ctx, spec, use, norm, out, "data")
    if use.dtype.kind == "f" and idx % 4 == 1 and use.size >= 6:
        # the same data handed over as a numpy masked array (dead-pixel mask, matplotlib's own calling convention): entries masked
        # by the caller may stay masked, but a NaN outside that mask must still come back masked and finite unmasked pixels judged as usual
        m_in = rng.random(use.shape) < 0.25
        if not m_in.any():
            m_in.flat[0] = True
        keepfin = np.flatnonzero(np.isfinite(use).ravel() & ~m_in.ravel())
        if len(np.unique(use.ravel()[keepfin])) >= 2:
            mo = norm(np.ma.MaskedArray(use.copy(), mask=m_in))
            mm = np.ma.getmaskarray(mo)
            nanpos = np.isnan(use) & ~m_in
            cm = {"dtype": str(use.dtype), "interval": spec["interval"], "stretch": spec["stretch"], "mode": mode}
            ctx.check(bool(mm[nanpos].all()), "nan_unmasked", "masked-array input: a NaN outside the caller's mask came back unmasked", **cm)
            okm = np.isfinite(use) & ~m_in & ~mm
            vv = np.ma.getdata(mo)[okm].astype(np.float64)
            if vv.size:
                ctx.close(max(0.0, float(vv.max()) - 1.0, float(-vv.min())), _tol(use.dtype), "out_of_range", lambda: "masked-array input: outputs in [%r,%r]" % (float(vv.min()), float(vv.max())), **cm)
    # limits the caller asked for are the interval's limits: data at or below a requested vmin -> 0, at or above a requested vmax -> 1
    if mode != "preset" and kw.get("interval_type") == "manual" and (kw.get("vmin") is not None or kw.get("vmax") is not None):
        rq0, rq1 = kw.get("vmin"), kw.get("vmax")
        o = np.ma.getdata(out).astype(np.float64)
        uf = use.astype(np.float64)
        okf = np.isfinite(uf) & ~np.ma.getmaskarray(out)
        eff0 = float(rq0) if rq0 is not None else float(uf[np.isfinite(uf)].min())
        eff1 = float(rq1) if rq1 is not None else float(uf[np.isfinite(uf)].max())
        if eff0 < eff1:
            cm = {"dtype": str(use.dtype), "interval": spec["interval"], "stretch": spec["stretch"], "mode": mode}
            if rq0 is not None:
                sel = okf & (uf <= eff0)
                ctx.close(float(np.abs(o[sel]).max()) if sel.any() else 0.0, _tol(use.dtype), "requested_vmin_not_honoured", lambda: "requested vmin=%r: data %r maps to %r" % (rq0, uf[sel][:3].tolist(), o[sel][:3].tolist()), **cm)
            if rq1 is not None:
                sel = okf & (uf >= eff1)
                ctx.close(float(np.abs(o[sel] - 1).max()) if sel.any() else 0.0, _tol(use.dtype), "requested_vmax_not_honoured", lambda: "requested vmax=%r: data %r maps to %r" % (rq1, uf[sel][:3].tolist(), o[sel][:3].tolist()), **cm)
    # limits -> 0 and 1
    fv0, fv1 = float(vmin), float(vmax)
    common = {"dtype": str(use.dtype), "interval": spec["interval"], "stretch": spec["stretch"], "mode": mode}
    # without data= the interval recomputes its limits from whatever array it is called with, so "the
    # interval's limits" are only a fixed pair when they are fully specified by the configuration
    fixed = mode != "direct" or spec["interval"] in ("manual_both", "manual_both_int", "centered_hr")
    if fixed and np.isfinite(fv0) and np.isfinite(fv1) and fv0 < fv1:
        tol = _tol(use.dtype)
        lim = np.array([fv0, fv1], dtype=np.float64)
        ol = np.ma.getdata(norm(lim)).astype(np.float64)
        ctx.close(abs(ol[0] - 0.0), _ltol(use.dtype), "limit_lo_not_0", lambda: "n(vmin=%r)=%r" % (fv0, float(ol[0])), **common)
        ctx.close(abs(ol[1] - 1.0), _ltol(use.dtype), "limit_hi_not_1", lambda: "n(vmax=%r)=%r" % (fv1, float(ol[1])), **common)
        # the same limits expressed in the data's own dtype when representable
        try:
            limd = np.array([vmin, vmax]).astype(use.dtype)
            if use.dtype.kind in "iuf" and np.all(limd.astype(np.float64) == lim):
                old = np.ma.getdata(norm(limd)).astype(np.float64)
                ctx.close(abs(old[0]), tol, "limit_lo_not_0", lambda: "n(vmin=%r as %s)=%r" % (fv0, use.dtype, float(old[0])), **common)
                ctx.close(abs(old[1] - 1.0), tol, "limit_hi_not_1", lambda: "n(vmax=%r as %s)=%r" % (fv1, use.dtype, float(old[1])), **common)
        except (OverflowError, ValueError):
            pass
        # probe grid in the data dtype: unique data values plus values beyond the limits
        if use.dtype.kind in "iu":
            info = np.iinfo(use.dtype)
            ext = [max(info.min, min(info.max, int(t))) for t in (fv0 - 3, fv0 - 1, fv0, fv0 + 1, (fv0 + fv1) / 2, fv1 - 1, fv1, fv1 + 1, fv1 + 3)]
            grid = np.unique(np.concatenate([use.ravel(), np.array(ext, dtype=use.dtype), np.array([info.min, info.max], dtype=use.dtype)]))
        else:
            span = fv1 - fv0
            g = np.concatenate([np.linspace(fv0 - 0.5 * span, fv1 + 0.5 * span, 41), use[np.isfinite(use)].ravel().astype(np.float64)])
            with np.errstate(over="ignore"):
                grid = np.unique(g.astype(use.dtype))
            grid = grid[np.isfinite(grid)]
        _judge(ctx, spec, grid, norm, norm(grid), "probe-grid")
    if mode == "direct":
        # history: a normalisation built without data= derives its limits from each array it is called with; reusing the object on an
        # array with another range (as list_of_arrays_to_rgba does for every image of a list) must give what a fresh object gives
        other = _gen_values(rng, spec["dtype"], FAMILIES[int(rng.integers(len(FAMILIES)))])
        if other.dtype == bool:
            other = np.array(other, dtype="float")
        if other.dtype.kind == "f":
            other = other * other.dtype.type(rng.choice([0.01, 1.0, 37.0])) + other.dtype.type(rng.choice([0.0, 5.0, -100.0]))
        elif other.dtype.itemsize >= 2:
            other = (other // 3 + other.dtype.type(7)).astype(other.dtype)
        fin_o = other[np.isfinite(other)] if other.dtype.kind == "f" else other.ravel()
        if len(np.unique(fin_o)) < 2 or (other.dtype.kind == "f" and float(np.abs(fin_o.astype(np.float64)).max()) > 0.01 * float(np.finfo(other.dtype).max) and other.dtype != np.float16):
            ctx.count("reuse_second_array_outside_domain")
            other = None
    if mode == "direct" and other is not None:
        if idx % 3 == 0:
            # state after an error: a call that fails (no finite value to take limits from) or is merely useless, caught by the
            # caller, must not change what the object does afterwards
            for bad in (np.full((3,), np.nan), np.array([], dtype=np.float64), "not an array"):
                try:
                    norm(bad)
                    ctx.count("bad_input_accepted")
                except Exception:  # noqa: BLE001
                    ctx.count("bad_input_raised")
        reused = norm(other)
        fresh = cn.CustomNormalization(**kw)(other)
        same = np.array_equal(np.ma.getmaskarray(reused), np.ma.getmaskarray(fresh)) and np.allclose(np.ma.getdata(reused)[~np.ma.getmaskarray(reused)].astype(np.float64), np.ma.getdata(fresh)[~np.ma.getmaskarray(fresh)].astype(np.float64), rtol=0, atol=1e-12, equal_nan=True)
        ctx.check(same, "reused_object_differs_from_fresh", lambda: "second array through the same CustomNormalization object differs from a fresh object with the same configuration: %r vs %r" % (np.ma.getdata(reused).ravel()[:5].tolist(), np.ma.getdata(fresh).ravel()[:5].tolist()), dtype=str(other.dtype), interval=spec["interval"], stretch=spec["stretch"], mode=mode)
        _judge(ctx, spec, other, norm, reused, "second array through the same object")
    nd = len(np.unique(use[np.isfinite(use)])) if use.dtype.kind == "f" else len(np.unique(use))
    hostile = (use.dtype.kind == "f" and not np.isfinite(use).all()) or kw.get("stretch_type", "linear") != "linear" or kw.get("power", 1.0) != 1.0
    ctx.nontrivial(("norm", spec["dtype"], spec["interval"], spec["stretch"], mode, spec["family"]), nd >= 3 and hostile)
    ctx.observe(n=int(use.size), distinct=nd, vmin=fv0, vmax=fv1, kw=kw)


def _run_stretch(spec, idx, ctx):
    cn = ctx.state["cn"]
    rng = ctx.rng(idx)
    cls = getattr(cn, spec["cls"])
    name = spec["cls"]
    if spec.get("default"):
        s = cls()
        par = "default"
    elif name == "LinearStretch":
        slope = float(rng.uniform(0.05, 1.0))
        intercept = float(rng.uniform(0.0, 1.0 - slope))
        s = cls(slope, intercept)
        par = (slope, intercept)
    elif name == "PowerLawStretch":
        par = float(10 ** rng.uniform(-1, np.log10(5)))
        s = cls(par)
    elif name in ("LogarithmicStretch", "InverseLogarithmicStretch"):
        par = float(10 ** rng.uniform(-3, 6))
        s = cls(par)
    elif name == "InverseHyperbolicSineStretch":
        par = float(10 ** rng.uniform(-4, 1))
        s = cls(par)
    else:  # HyperbolicSineStretch
        par = float(10 ** rng.uniform(np.log10(0.05), 1))  # conditioning grows like exp(1/a)
        s = cls(par)
    y = np.unique(np.concatenate([[0.0, 1.0, 0.5], rng.uniform(0, 1, 60), np.linspace(0, 1, 21)]))
    inv = s.inverse
    common = {"cls": name}
    if name == "LinearStretch" and not spec.get("default"):
        lo, hi = s.intercept, s.slope + s.intercept
        yy = y * (hi - lo) + lo  # the image of s
    else:
        yy = y
    a = np.asarray(s(np.asarray(inv(yy.copy())).copy()), dtype=np.float64)
    ctx.close(float(np.max(np.abs(a - yy))), 1e-8, "stretch_of_inverse", lambda: "%s(%r): max|s(s^-1(y))-y|" % (name, par), **common)
    b = np.asarray(inv(np.asarray(s(y.copy())).copy()), dtype=np.float64)
    ctx.close(float(np.max(np.abs(b - y))), 1e-8, "inverse_of_stretch", lambda: "%s(%r): max|s^-1(s(y))-y|" % (name, par), **common)
    # a stretch maps [0,1] monotonically onto [0,1]
    sy = np.asarray(s(y.copy()), dtype=np.float64)
    if not (name == "LinearStretch" and not spec.get("default")):
        ctx.close(max(abs(sy[0]), abs(sy[-1] - 1.0)), 1e-9, "stretch_endpoints", lambda: "%s(%r): s(0)=%r s(1)=%r" % (name, par, sy[0], sy[-1]), **common)
    ctx.close(max(0.0, float(np.max(sy[:-1] - sy[1:]))), 1e-12, "stretch_non_monotone", lambda: "%s(%r)" % (name, par), **common)
    # history on one object: the fields of these dataclasses are public and mutable; after changing the parameter the declared
    # inverse must be the inverse of the *current* stretch
    if name != "LinearStretch":
        field = "power" if name == "PowerLawStretch" else "a"
        oldv = getattr(s, field)
        newv = float(oldv * (3.0 if oldv < 1 else 1 / 3.0))
        if name == "HyperbolicSineStretch":
            newv = float(min(max(newv, 0.05), 10.0))
        setattr(s, field, newv)
        inv2 = s.inverse
        a2 = np.asarray(s(np.asarray(inv2(y.copy())).copy()), dtype=np.float64)
        ctx.close(float(np.max(np.abs(a2 - y))), 1e-8, "stretch_of_inverse_after_update", lambda: "%s: parameter %r -> %r, max|s(s^-1(y))-y|" % (name, oldv, newv), **common)
        b2 = np.asarray(inv2(np.asarray(s(y.copy())).copy()), dtype=np.float64)
        ctx.close(float(np.max(np.abs(b2 - y))), 1e-8, "inverse_of_stretch_after_update", lambda: "%s: parameter %r -> %r, max|s^-1(s(y))-y|" % (name, oldv, newv), **common)
    # state after an error: an assignment that the object *rejects* (raises) must leave it as it was; one that is silently accepted
    # puts the object outside the property's parameter domain and is undone by the harness
    if name != "LinearStretch":
        field = "power" if name == "PowerLawStretch" else "a"
        cur = getattr(s, field)
        for bad in (0, -2.0, float("nan")):
            try:
                setattr(s, field, bad)
            except Exception:  # noqa: BLE001
                ctx.count("invalid_parameter_assignment_rejected")
                kept = getattr(s, field)
                ctx.check(kept == cur, "rejected_assignment_changed_state", lambda: "%s.%s = %r raised but the attribute is now %r (was %r)" % (name, field, bad, kept, cur), **common)
                a3 = np.asarray(s(np.asarray(s.inverse(y.copy())).copy()), dtype=np.float64)
                ctx.close(float(np.max(np.abs(a3 - y))), 1e-8, "stretch_of_inverse_after_rejected_assignment", lambda: "%s after rejected %s = %r" % (name, field, bad), **common)
            else:
                ctx.count("invalid_parameter_assignment_accepted_and_undone")
            setattr(s, field, cur)
    ctx.nontrivial(("stretch_inv", name, "default" if spec.get("default") else "p%d" % (idx % 7)), not spec.get("default"))
    ctx.observe(cls=name, par=par)


def _run_combined(spec, idx, ctx):
    """the library's CustomNormalization.inverse is the pseudo-inverse used for colour bars: n^-1(n(x)) = x inside the limits."""
    cn = ctx.state["cn"]
    rng = ctx.rng(idx)
    st = STRETCHES[int(rng.integers(len(STRETCHES)))]
    data = rng.normal(size=40) * 10.0 ** rng.uniform(-1, 2)
    kw = _cfg(rng, "manual_none", st, data)
    norm = cn.CustomNormalization(data=data, **kw)
    out = norm(data)
    back = np.asarray(norm.inverse(np.ma.getdata(out).copy()), dtype=np.float64)
    scale = float(np.max(np.abs(data)))
    ctx.close(float(np.max(np.abs(back - data))) / scale, 1e-7, "norm_inverse_roundtrip", lambda: "stretch=%s kw=%r" % (st, kw), stretch=st)
    ctx.nontrivial(("combined", st), st != "linear")
    ctx.observe(kw=kw)


def _run_viz(spec, idx, ctx):
    """In situ: what the plotting entry points hand to the colour conversion must be the requested normalisation of the data."""
    from matplotlib.figure import Figure

    from vf import hook

    viz = ctx.state.get("viz")
    if viz is None:
        from quantem.core.visualization import visualization as viz

        ctx.state["viz"] = viz
        cap = ctx.state["viz_cap"] = {}

        def pre_array(a, k):
            cap["scaled"] = a[0]
            return None

        def pre_list(a, k):
            cap["norm"] = k.get("norm")
            cap["arrays"] = a[0]
            return None

        # the names as bound inside visualization.py (from ... import ...)
        hook.wrap(viz, "array_to_rgba", pre=pre_array, ctx=ctx, also_patch_importers=False)
        hook.wrap(viz, "list_of_arrays_to_rgba", pre=pre_list, ctx=ctx, also_patch_importers=False)
    cap = ctx.state["viz_cap"]
    cap.clear()
    rng = ctx.rng(idx)
    fam = FAMILIES[int(rng.integers(len(FAMILIES)))]
    shape = (int(rng.integers(3, 9)), int(rng.integers(3, 9)))
    data = _gen_values(rng, spec["dtype"], fam).ravel()
    data = np.resize(data, shape)
    fin = data[np.isfinite(data)].astype(np.float64) if data.dtype.kind == "f" else data.astype(np.float64).ravel()
    lo, hi = float(fin.min()), float(fin.max())
    span = max(hi - lo, 1e-6)
    kwargs, norm_arg, want = {}, None, None
    st = spec["stretch"]
    lim = spec["limits"]
    if lim == "both":
        vmin = lo + span * float(rng.uniform(0.05, 0.4))
        vmax = vmin + span * float(rng.uniform(0.05, 0.5))
        if rng.random() < 0.5:
            kwargs = {"vmin": vmin, "vmax": vmax}
            if st != "linear":
                kwargs["stretch_type"] = st
        else:
            norm_arg = {"interval_type": "manual", "stretch_type": st, "vmin": vmin, "vmax": vmax}
        want = (vmin, vmax)
    elif lim == "preset":
        norm_arg = PRESETS[int(rng.integers(len(PRESETS)))]
    elif lim == "quantiles":
        kwargs = {"lower_quantile": float(rng.choice([0.0, 0.05, 0.2])), "upper_quantile": float(rng.choice([1.0, 0.95, 0.8]))}
    fig = Figure(figsize=(2, 2))
    ax = fig.subplots()
    common = {"entry": spec["entry"], "dtype": str(data.dtype), "limits": lim, "stretch": st, "interval": "viz", "mode": "viz"}
    vspec = {"dtype": spec["dtype"], "interval": "viz:" + lim, "stretch": st, "mode": "viz:" + spec["entry"]}
    if spec["entry"] == "array":
        viz._show_2d_array(data, norm=norm_arg, figax=(fig, ax), **kwargs)
        out = cap.get("scaled")
        ctx.check(out is not None, "viz_hook_not_reached", "array_to_rgba was not called by _show_2d_array", **common)
        if out is None:
            return
        _judge(ctx, vspec, data, None, out, "in situ: _show_2d_array -> array_to_rgba")
        arrays, norm = [data], None
        outs = [np.ma.getdata(out).astype(np.float64)]
    else:
        other = np.resize(_gen_values(rng, spec["dtype"], fam).ravel(), shape)
        viz._show_2d_combined([data, other], norm=norm_arg, figax=(fig, ax), **kwargs)
        norm = cap.get("norm")
        ctx.check(norm is not None, "viz_hook_not_reached", "list_of_arrays_to_rgba was not called with a norm by _show_2d_combined", **common)
        if norm is None:
            return
        arrays = [data, other]
        outs = []
        for a in arrays:
            o = norm(a)
            _judge(ctx, vspec, a, norm, o, "in situ: norm handed to list_of_arrays_to_rgba by _show_2d_combined")
            outs.append(np.ma.getdata(o).astype(np.float64))
    if want is not None:
        # the requested limits must be honoured: data <= vmin -> 0, data >= vmax -> 1, strictly inside -> strictly inside
        tol = _tol(data.dtype) if data.dtype != np.float32 else 2e-4
        for a, o in zip(arrays, outs):
            af = a.astype(np.float64)
            ok = np.isfinite(af)
            below, above, inside = ok & (af <= want[0]), ok & (af >= want[1]), ok & (af > want[0] + 1e-3 * span) & (af < want[1] - 1e-3 * span)
            ctx.close(float(np.abs(o[below]).max()) if below.any() else 0.0, tol, "requested_vmin_not_honoured", lambda: "data <= vmin=%r maps to %r" % (want[0], o[below][:3].tolist()), **common)
            ctx.close(float(np.abs(o[above] - 1).max()) if above.any() else 0.0, tol, "requested_vmax_not_honoured", lambda: "data >= vmax=%r maps to %r" % (want[1], o[above][:3].tolist()), **common)
            ctx.check(bool(np.all((o[inside] > 0) & (o[inside] < 1))), "requested_limits_not_honoured", lambda: "data strictly inside (vmin,vmax)=(%r,%r) maps to %r" % (want[0], want[1], o[inside][:4].tolist()), **common)
    nd = len(np.unique(fin))
    ctx.nontrivial(("viz", spec["entry"], spec["dtype"], lim, st), nd >= 3)
    ctx.observe(entry=spec["entry"], limits=lim, want=want, norm=norm_arg, kwargs=kwargs)


def run_case(spec, idx, ctx):
    with np.errstate(all="ignore"):
        if spec["kind"] == "norm":
            _run_norm(spec, idx, ctx)
        elif spec["kind"] == "stretch_inv":
            _run_stretch(spec, idx, ctx)
        elif spec["kind"] == "viz":
            _run_viz(spec, idx, ctx)
        else:
            _run_combined(spec, idx, ctx)
