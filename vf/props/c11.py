"""C11 — ragged Vector keeps its structural invariants under any operation history.

Oracle: the real `quantem.core.datastructures.vector.Vector` is driven through operation histories
while `vf.refmodels.vector_model.VecModel` (index-tuple dict of arrays, value semantics) is stepped in
lock-step.  After every operation: results are compared with the model's, every live vector is
compared with its model (so a mutation of one vector that shows up in a copy / an independently
created vector is seen), the class invariant and the flatten laws are evaluated through the public
API, and the storage of all live vectors is checked to be disjoint.  Wrappers on the public methods
evaluate the class invariant after every outermost public call as well (views and copies included).

Observer effect.  The dense monitor above *reads* the vector after every operation (shape, fields,
units, data, metadata, flatten(), v[name].flatten() for every field, in field order).  Anything the
library computes lazily and repairs on a read is therefore healed by the monitor before it can do
harm: a name->column table rebuilt on lookup, a cached flattened array / row count / total length, a
cached schema tuple, lazily materialised cells or padding columns, a deferred add/remove_fields that is
applied on first access.  Every history is therefore also run in a *sparse* mode (spec "obs": "sparse"):
the model is stepped in lock-step, the operations still compare their own return values, but the
harness touches no public attribute or method of any live vector between operations (the invariant
wrappers are switched off as well) and the full comparison happens once, at the end of the history.
The composite operations `schema_churn` ([by-name access,] remove k fields, add k fields[, by-name
access / arithmetic / write-back], nothing observed in between) and `flatten_modify_restore`
(saved = v[f].flatten(); v[f] op= c; v[f].set_flattened(saved) -- on the whole vector and on a one-cell
block view) put the histories that such caches and fast paths need into every depth of the enumeration.
Arrays returned by Vector.flatten() / v[f].flatten() (new arrays by contract, unlike slicing views and
get_data cells, which share storage by design) are kept together with a snapshot and must still equal
it after every later operation (`returned_value_changed`).  Arguments: every list / array handed to the library is
snapshotted (container length, element identities, element contents), must be unchanged after the call
(`argument_modified`) and is then scribbled over by the "caller"; `shared_argument` hands one data list to two
constructions; `partial_block_failure` leaves a block assignment half-way (state after an error) behind an earlier
write-back and follows it with another one.  What sparse mode cannot see: a defect that
manifests and is healed again between two operations of the history without ever reaching a returned
value or the final state.
"""
from __future__ import annotations

import copy as _copy
import itertools

import numpy as np

from vf import core

PROPERTY = "C11"
LEVEL = "exploration"
ANCHOR_FILES = ["quantem/core/datastructures/vector.py", "quantem/core/utils/validators.py"]

ALPHABET = [
    "set_cell_item", "set_cell_data", "get_cell", "get_slice", "get_short", "get_list", "get_data_fancy",
    "set_slice_list", "set_slice_vector", "set_list_list", "set_data_fancy", "set_short",
    "iadd", "isub", "imul", "itruediv", "ifloordiv", "imod", "ipow",
    "flatten", "field_flatten", "field_roundtrip", "field_set_flat", "field_assign", "field_getitem",
    "add_field_str", "add_fields_list", "remove_field_str", "remove_fields_list",
    "copy", "new_vector", "metadata_write", "invalid_set", "invalid_fields", "invalid_index",
    "schema_churn", "flatten_modify_restore", "partial_block_failure", "shared_argument",
]  # fmt: skip
SCHEMA_OPS = {"add_field_str", "add_fields_list", "remove_field_str", "remove_fields_list", "schema_churn"}
SLICE_OPS = {"partial_block_failure", "get_slice", "get_short", "get_list", "get_data_fancy", "set_slice_list", "set_slice_vector", "set_list_list", "set_data_fancy", "field_getitem"}
IOPS = ["iadd", "isub", "imul", "itruediv", "ifloordiv", "imod", "ipow"]

RULE = (
    "bounded-exhaustive sequences over a %d-operation alphabet (all sequences of length <=2 quick / <=3 thorough) x 1, 2, 3 fixed "
    "dimensions, each run densely observed (full comparison after every operation) and sparsely observed (no read of any live vector "
    "between operations, full comparison at the end; of the length-3 sequences every third one), plus seeded random histories of depth 15 (every tenth: 40), half of them sparse; every history starts from a randomly shaped (sizes 1-4), randomly "
    "populated vector (1-4 fields, sometimes 9-16; 0-5 rows per cell, unset cells; float, int or mixed-dtype cells) and operation parameters (indices, values, field "
    "names) are drawn from the case seed. non-trivial = two populated cells with different row counts existed and the history "
    "contains a schema change or a block (slice/list) access; plus six size-threshold histories (x5 thorough): 105 000 / 100 003 / 102 500 cells, a 1 000 003-row cell, 70 and 130 fields; distinct = (number of fixed dimensions, observation mode, operation-kind sequence)" % len(ALPHABET)
)
ASSUMPTIONS = [
    "index forms: Python ints and NumPy ints of every width (int8..uint64, intp) that can hold the position, negative ints where __getitem__/single-cell __setitem__ take them, slices (incl. negative start / step), lists, ranges (reads only), integer arrays of every integer dtype as contiguous / read-only / strided / reversed views; boolean masks, tuples-as-lists, np-int shapes and list shapes are rejected with TypeError on the unchanged tree and are not generated",
    "index expressions use int / slice / at most one list-or-array per expression (several lists have no agreed meaning: numpy pairs them, Vector crosses them); no empty selections (a Vector cannot have a zero-length axis); Ellipsis and more indices than axes are not generated",
    "the workload never stores one array object in two places (block copies between vectors go through view.copy()), so any storage shared between live vectors is the library's doing; views returned by slicing are compared immediately and dropped",
    "get_data on a one-cell block may return the bare cell or a one-element list (both accepted); one-cell list indices and one-cell set_data blocks are not generated for assignment",
    "an assignment with fewer indices than axes may either raise (state unchanged) or act on all trailing axes, as __getitem__ does; anything else is a violation",
    "atomicity of a failing block assignment is not part of the property: invalid_set offers lists in which every element is invalid; partial_block_failure offers valid arrays followed by an invalid one, requires the call to raise and every addressed cell to hold either its old value or the array offered for it, and lets the model adopt what it reads back",
    "a call must leave the lists / arrays it is given as they were (argument_modified) and later changes the caller makes to its own containers (slot replaced, junk appended, nested-list cells and value arrays edited in place) must not reach any vector; arrays the API stores by reference (cell arrays given to from_data / assignments) are never edited by the workload afterwards, and two vectors built from the same list of *arrays* are only required to have independent containers",
    "calls the model marks invalid (wrong column count, non-2-D cell, wrong number of arrays for a block, duplicate/existing/unknown field, wrong flattened length, out-of-range position, wrong number of get_data/set_data indices) must raise (any exception type) and leave every live vector unchanged; negative positions in get_data/set_data may raise or mean what they mean for __getitem__",
    "unit texts the caller did not choose (default units, units of added fields) are adopted from the library; only their count and position are judged",
    "cell dtype is not part of the property: values are compared exactly, the model adopts the real cell's dtype whenever the values agree; integer cells only receive integer-closed field arithmetic",
    "a quarter of the histories use vectors whose cells have different dtypes (int64 -- also from Python-int nested lists -- and float64 side by side, in any row-major order); flattened views are compared by value with the numpy-promoted concatenation; in those vectors field arithmetic keeps integers far below 2**53 so that the float64 view of an integer column is exact and the write-back law is meaningful",
    "15% of the histories start from a wide vector (9-16 fields); remove_fields lists name the fields in any order and often leave only 1-4 survivors",
    "outputs of the API are fed back as inputs: a field is written from the field view of another / the same field of the same vector, of a copy, of another live vector with the same number of rows, or from a flattened field (expected: the values of that field at call time, cast into each cell's dtype); the list get_data returns for a block is assigned back to that block (expected: no change)",
    "comparisons are exact (model and library perform the same IEEE operations on the same operands): tolerance 0, NaN equals NaN; x**3.0 and other exponents that go through pow() are not generated because their last bit depends on the SIMD path NumPy picks for the memory layout (measured: 1 ulp between a C-ordered and a strided cell)",
    "cell arrays are handed over C-contiguous, Fortran-ordered, row-strided, column-strided with an offset, transposed or with a negative stride (own base each, always writable: cells are stored by reference and in-place arithmetic on a read-only cell raises on the unchanged tree, so read-only arrays are only used for copied arguments: set_flattened values and index arrays); expected = the result for a contiguous copy",
    "size thresholds (kind 'big'): > 1e5 cells in 1, 2 and 3 dimensions, a cell with > 1e6 rows, 70 and 130 fields, short histories from an affordable op list, same oracles; float cells are occasionally scaled by 1e-8 / 1e8 / 1e150; a quarter of the vectors mix int64 / int32 / float64 / float32 cells",
    "process-global state: every eighth random history runs under np.errstate(all='raise') and unusual print options with a workload that raises no floating-point flag (expected = default-state behaviour); torch state and quantem.config are not touched by Vector and are not varied",
    "neutral calls between the steps of half of the densely observed random histories: repr, str, copy() (dropped), property reads, iteration, np.asarray(v[f]), flatten(), copy.copy / copy.deepcopy, occasionally save(); Vector has no __len__ (TypeError on the unchanged tree, not generated); after each such call every live vector is compared with its model (neutral_call_changed_state)",
]
BUDGET = {"quick": {"soft_s": 300}, "thorough": {"soft_s": 1200}}
MIN_EVALUATIONS = {"quick": 2000, "thorough": 50000}
REQUIRED_COUNTERS = ["eval:state_mismatch", "eval:class_invariant", "eval:result_mismatch", "eval:flatten_law", "eval:shared_storage", "eval:bystander_changed", "eval:exception", "eval:invalid_accepted", "eval:metadata_leak", "eval:returned_value_changed", "eval:argument_modified", "eval:partial_failure_state", "eval:neutral_call_changed_state"]
EXHAUSTIVE = {"quick": False, "thorough": False}


# size thresholds: > 1e5 cells, a cell with > 1e6 rows, > 64 fields (short histories from op lists that stay affordable)
_BIG_OPS = ["get_slice", "set_slice_list", "get_data_fancy", "get_list", "iadd", "imul", "field_roundtrip", "field_set_flat", "field_assign", "flatten", "add_field_str",
            "remove_field_str", "remove_fields_list", "copy", "flatten_modify_restore", "set_cell_item", "schema_churn", "get_cell", "set_data_fancy"]  # fmt: skip
BIG = [
    {"name": "cells_2d", "ndim": 2, "shape": [350, 300], "nf": 2, "fill": 0.01},
    {"name": "cells_1d", "ndim": 1, "shape": [100003], "nf": 3, "fill": 0.02},
    {"name": "cells_3d", "ndim": 3, "shape": [50, 41, 50], "nf": 2, "fill": 0.01},
    {"name": "long_cell", "ndim": 1, "shape": [3], "nf": 1, "fill": 1.0, "long_rows": 1000003},
    {"name": "fields_70", "ndim": 2, "shape": [3, 2], "nf": 70, "fill": 0.8},
    {"name": "fields_130", "ndim": 1, "shape": [4], "nf": 130, "fill": 0.8},
]


def plan(tier, seed):
    """every enumerated sequence is run densely observed and sparsely observed (see the module docstring)"""
    specs = []
    for rep_ in range(1 if tier == "quick" else 5):
        for b in BIG:
            specs.append(dict(b, kind="big", obs="dense", depth=5 if tier == "quick" else 8, rep=rep_))
    nrand = 1500 if tier == "quick" else 12000
    for i in range(nrand):
        sp = {"kind": "rand", "ndim": 1 + i % 3, "depth": 15 if i % 10 else 40, "obs": "sparse" if (i // 3) % 2 else "dense"}
        if i % 8 == 5:
            sp["np_state"] = 1  # np.errstate(all="raise") + unusual print options around the whole history
        if sp["obs"] == "dense" and i % 4 < 2:
            sp["neutral"] = 1  # neutral calls (repr, copy, iteration, property reads, ...) between the steps
        specs.append(sp)
    depth = 2 if tier == "quick" else 3
    for nd in (1, 2, 3):
        for d in range(1, depth + 1):
            for n, seq in enumerate(itertools.product(ALPHABET, repeat=d)):
                specs.append({"kind": "exh", "ndim": nd, "ops": list(seq), "obs": "dense"})
                if d <= 2 or (n + nd) % 3 == 0:  # length-3 sequences: every third one is also run sparsely (time budget)
                    specs.append({"kind": "exh", "ndim": nd, "ops": list(seq), "obs": "sparse"})
    return specs


# ------------------------------------------------------------------------------------------------
# hooks: class invariant after every outermost public call


def setup(ctx):
    from quantem.core.datastructures import vector as vmod
    from vf import hook

    ctx.state["vmod"] = vmod
    ctx.state["V"] = vmod.Vector
    ctx.state["depth"] = 0
    ctx.state["sess"] = None
    ctx.state["quiet"] = 0
    V, FV = vmod.Vector, vmod._FieldView

    def pre(a, k):
        ctx.state["depth"] += 1

    def mk_post(pick):
        def post(tok, a, k, res):
            ctx.state["depth"] -= 1
            S = ctx.state["sess"]
            if ctx.state["depth"] != 0 or S is None or ctx.state["quiet"]:
                return
            for v in pick(a, res):
                if isinstance(v, V):
                    _class_invariant(ctx, v, S.fields, "hook")

        return post

    for name in ("from_shape", "from_data"):
        hook.wrap(V, name, pre=pre, post=mk_post(lambda a, res: [res]), ctx=ctx)
    for name in ("get_data", "set_data", "__getitem__", "__setitem__", "add_fields", "remove_fields", "copy", "flatten"):
        hook.wrap(V, name, pre=pre, post=mk_post(lambda a, res: [a[0], res]), ctx=ctx)
    for name in ("__iadd__", "__isub__", "__imul__", "__itruediv__", "__ifloordiv__", "__imod__", "__ipow__", "flatten", "set_flattened"):
        hook.wrap(FV, name, pre=pre, post=mk_post(lambda a, res: [getattr(a[0], "vector", None)]), ctx=ctx)


# ------------------------------------------------------------------------------------------------
# monitors (read the real object through its public surface only)


def _same(a, b):
    if a is None or b is None:
        return a is None and b is None
    if not isinstance(a, np.ndarray) or not isinstance(b, np.ndarray) or a.shape != b.shape:
        return False
    if a.size == 0 or (a.dtype == b.dtype and a.tobytes() == b.tobytes()):
        return True  # (fast path: bit-identical)
    with np.errstate(all="ignore"):
        eq = a == b
        if a.dtype.kind in "fc" and b.dtype.kind in "fc":
            eq = eq | ((a != a) & (b != b))
    return bool(np.all(eq))


def _brief(x):
    if isinstance(x, np.ndarray):
        return "array%s%s" % (x.shape, x.tolist() if x.size <= 12 else "")
    if isinstance(x, list):
        return "[" + ", ".join(_brief(e) for e in x[:6]) + (", ..." if len(x) > 6 else "") + "]"
    return repr(x)[:120]


def _nesting_ok(data, shape):
    """-> (ok, leaves in row-major order) ; ok=False when the nested lists do not have the declared shape"""
    leaves = []

    def walk(node, rest):
        if not rest:
            leaves.append(node)
            return not isinstance(node, list)
        if not isinstance(node, list) or len(node) != rest[0]:
            return False
        return all([walk(sub, rest[1:]) for sub in node])

    ok = walk(data, tuple(shape))
    return ok, leaves


def _class_invariant(ctx, v, fields, where):
    """fields: dict of classifier fields, or a zero-argument callable producing it (only needed on failure)"""
    try:
        shape, flds, units, nf, data = v.shape, v.fields, v.units, v.num_fields, v.data
    except Exception as e:  # noqa: BLE001
        f = dict(fields() if callable(fields) else fields, where=where)
        ctx.check(False, "class_invariant", "reading public attributes raised %r" % (e,), inv="attributes", **f)
        return False
    c_shape = isinstance(shape, tuple) and len(shape) >= 1 and all(isinstance(s, int) and s > 0 for s in shape)
    c_fields = isinstance(flds, list) and all(isinstance(x, str) for x in flds) and len(set(flds)) == len(flds)
    c_units = isinstance(units, list) and len(units) == len(flds) == nf and all(isinstance(x, str) for x in units)
    good, leaves = _nesting_ok(data, shape) if c_shape else (False, [])
    bad = [c for c in leaves if c is not None and not (isinstance(c, np.ndarray) and c.ndim == 2)]
    bad2 = [c for c in leaves if isinstance(c, np.ndarray) and c.ndim == 2 and c.shape[1] != nf]
    if c_shape and c_fields and c_units and good and not bad and not bad2:
        ctx.counters["eval:class_invariant"] += 6  # the six conditions below, all satisfied
        return True
    f = dict(fields() if callable(fields) else fields, where=where)
    ok = True
    ok &= ctx.check(c_shape, "class_invariant", "shape=%r" % (shape,), inv="shape", **f)
    ok &= ctx.check(c_fields, "class_invariant", "fields=%r" % (flds,), inv="fields_unique", **f)
    ok &= ctx.check(c_units, "class_invariant", "fields=%r units=%r num_fields=%r" % (flds, units, nf), inv="units_fields_one_to_one", **f)
    ok &= ctx.check(good, "class_invariant", lambda: "nested storage does not have shape %r: %s" % (shape, _brief(data)), inv="nesting", **f)
    ok &= ctx.check(not bad, "class_invariant", lambda: "cell is not a 2-D array: %s" % _brief(bad[0]), inv="cell_not_2d", **f)
    ok &= ctx.check(not bad2, "class_invariant", lambda: "cell has %d columns for %d fields" % (bad2[0].shape[1], nf), inv="cell_columns", **f)
    return bool(ok)


def _state_diff(v, m):
    """None when the real vector equals the model, else a short description.  Adopts real dtypes."""
    if tuple(v.shape) != tuple(m.shape):
        return "shape %r, model %r" % (v.shape, m.shape)
    if list(v.fields) != m.fields:
        return "fields %r, model %r" % (v.fields, m.fields)
    ru = list(v.units)
    if len(ru) != len(m.units) or any(mu is not None and mu != u for mu, u in zip(m.units, ru)):
        return "units %r, model %r" % (v.units, m.units)
    m.units = ru  # default unit texts (model: None) are adopted from the library
    if v.num_fields != m.nf:
        return "num_fields %r, model %r" % (v.num_fields, m.nf)
    good, leaves = _nesting_ok(v.data, m.shape)
    if not good:
        return "nested storage does not have shape %r: %s" % (m.shape, _brief(v.data))
    for ix, c in zip(m.order(), leaves):
        mc = m.cells[ix]
        if not _same(c, mc):
            return "cell %r = %s, model %s" % (ix, _brief(c), _brief(mc))
        if mc is not None and mc.dtype != c.dtype:
            m.cells[ix] = mc.astype(c.dtype)
    return None


def _model_from_real(v):
    from vf.refmodels.vector_model import VecModel

    try:
        m = VecModel(v.shape, list(v.fields), list(v.units), v.name)
        good, leaves = _nesting_ok(v.data, m.shape)
        if not good:
            return None
        arrs = [c for c in leaves if c is not None]
        if len({id(c) for c in arrs}) != len(arrs):
            return None  # one array stored in two cells: the history cannot be continued with a value model
        for ix, c in zip(m.order(), leaves):
            if c is not None and not m.valid_cell(c):
                return None
            m.cells[ix] = None if c is None else np.array(c, copy=True)
        return m
    except Exception:  # noqa: BLE001
        return None


def _byte_bounds(a):
    from numpy.lib.array_utils import byte_bounds

    return byte_bounds(a)


# ------------------------------------------------------------------------------------------------
# generators


POOL = ["x", "y", "z", "w", "kx", "ky", "int", "amp", "phase", "t", "qx", "qy", "h", "k", "l", "theta", "background", "sigma"]
UNITS = ["A", "mrad", "none", "1/A", "e", "px"]


def _rand_cell(rng, nf, kind, rows=None):
    if rows is None:
        rows = int(rng.choice([0, 1, 1, 2, 2, 3, 3, 4, 5]))
    if kind == "mixed":  # every cell draws its own dtype: int64 / int32 / float64 / float32 cells side by side, in any order
        dt = [np.int64, np.float64, np.int32, np.float32][int(rng.integers(4))]
        if dt in (np.int64, np.int32):
            return rng.integers(-9, 10, size=(rows, nf)).astype(dt)
        return np.round(rng.normal(size=(rows, nf)) * 4.0, 2).astype(dt)
    if kind == "int":
        return rng.integers(-9, 10, size=(rows, nf)).astype(np.int64)
    c = np.round(rng.normal(size=(rows, nf)) * 4.0, 2)
    if rng.random() < 0.1:  # amplitudes of 1e-8, 1e+8 and near the edge of float64 (overflow to inf is compared like any value)
        c = c * float(rng.choice([1e-8, 1e8, 1e150]))
    return c


def _rand_shape(rng, nd):
    while True:
        shape = tuple(int(x) for x in rng.integers(1, 5, size=nd))
        if int(np.prod(shape)) <= 36 and (max(shape) >= 2 or rng.random() < 0.15):
            return shape  # (a few one-cell vectors: shape (1,), (1, 1), (1, 1, 1))


_NPINTS = [np.int8, np.uint8, np.int16, np.uint16, np.int32, np.uint32, np.int64, np.uint64, np.intp]
_NPSINTS = [np.int8, np.int16, np.int32, np.int64]


def _npint(rng, types, k):
    """k as a NumPy integer of a random width that can hold it"""
    ok = [t for t in types if np.iinfo(t).min <= k <= np.iinfo(t).max]
    return ok[int(rng.integers(len(ok)))](k)


def _layout(rng, c):
    """an array equal to c in one of the memory layouts a caller may hand over (own base per array, always writable:
    the vector stores cell arrays by reference, and in-place field arithmetic on a read-only cell raises by design)"""
    form = int(rng.integers(8))
    if form <= 2 or c.ndim != 2:
        return c.copy()
    if form == 3:
        return np.asfortranarray(c)
    if form == 4:  # row-strided view of a taller base
        big = np.zeros((2 * c.shape[0], c.shape[1]), dtype=c.dtype)
        big[::2] = c
        return big[::2]
    if form == 5:  # column-strided view with an offset
        big = np.zeros((c.shape[0], 2 * c.shape[1] + 1), dtype=c.dtype)
        big[:, 1::2] = c
        return big[:, 1::2]
    if form == 6:  # transposed view of a (fields, rows) base
        return np.ascontiguousarray(c.T).T
    return c[::-1].copy()[::-1]  # negative row stride


def _axis(rng, n, kind, unique=False, minlen=1):
    """one axis of an index expression of the requested kind -> (expression, kind actually used)"""
    if kind == "i":
        k = int(rng.integers(n))
        return (_npint(rng, _NPINTS, k) if rng.random() < 0.3 else k), "i"  # Python int or a NumPy int of any width
    if kind == "n":
        k = int(rng.integers(-n, 0))
        return (_npint(rng, _NPSINTS, k) if rng.random() < 0.3 else k), "n"
    if kind == "r":
        a = int(rng.integers(0, n))
        b = int(rng.integers(a + 1, n + 1))
        return (range(a, b) if rng.random() < 0.7 else range(b - 1, a - 1, -1)), "r"
    if kind == "s":
        for _ in range(30):
            a = int(rng.integers(0, n))
            b = int(rng.integers(a + 1, n + 1))
            step = int(rng.choice([1, 1, 1, 2]))
            form = int(rng.integers(5))
            sl = [slice(a, b, step if step > 1 else None), slice(None), slice(a, None), slice(None, b), slice(None, None, -1) if rng.random() < 0.5 else slice(a - n, b)][form]
            if len(range(*sl.indices(n))) >= minlen:
                return sl, "s"
        return slice(None), "s"
    if kind in ("l", "a"):
        if unique:
            k = int(rng.integers(min(minlen, n), n + 1))
            sel = [int(x) for x in rng.permutation(n)[:k]]
        else:
            k = int(rng.integers(max(1, minlen), n + 2))
            sel = [int(x) for x in rng.integers(0, n, size=k)]
        if kind == "a":
            arr = np.array(sel, dtype=type(_npint(rng, _NPINTS, max(sel) if sel else 0)))  # index arrays of every integer dtype ...
            form = int(rng.integers(4))  # ... contiguous, read-only, strided or reversed views
            if form == 1:
                arr.setflags(write=False)
            elif form == 2:
                big = np.zeros(2 * len(arr), dtype=arr.dtype)
                big[::2] = arr
                arr = big[::2]
            elif form == 3:
                arr = arr[::-1].copy()[::-1]
            return arr, "a"
        return sel, "l"
    raise core.HarnessError("axis kind %r" % kind)


def _pattern_fields(pat, ndim):
    nonint = [i for i, p in enumerate(pat) if p not in "in"]
    if "r" in pat:
        return {"ndim": ndim, "idx": ",".join(pat), "short": len(pat) < ndim, "nfancy": len(nonint), "fancy_first": nonint[0] if nonint else -1, "index_form": "range"}
    return {"ndim": ndim, "idx": ",".join(pat), "short": len(pat) < ndim, "nfancy": len(nonint), "fancy_first": nonint[0] if nonint else -1}


class ArgWatch:
    """A list / array handed to the library: the call must leave it as it was (same container length, same element objects,
    same element contents), and what the caller does to its own container afterwards must not reach the vector (the
    container is scribbled over: a slot replaced, junk appended, nested-list cells / copied value arrays edited in
    place).  Arrays the API stores by reference (cells) are never edited: sharing them is the caller's choice."""

    def __init__(self, S, arg, what):
        self.S, self.arg, self.what = S, arg, what
        if isinstance(arg, np.ndarray):
            self.snap = arg.copy()
        else:
            self.elems = list(arg)
            self.snap = [e.copy() if isinstance(e, np.ndarray) else _copy.deepcopy(e) for e in arg]

    def _unchanged(self):
        a = self.arg
        if isinstance(a, np.ndarray):
            return _same(a, self.snap)
        if len(a) != len(self.elems) or any(x is not y for x, y in zip(a, self.elems)):
            return False
        return all(_same(x, y) if isinstance(x, np.ndarray) else x == y for x, y in zip(a, self.snap))

    def verify(self):
        S = self.S
        return S.ctx.check(self._unchanged(), "argument_modified", lambda: "%s was modified by the call: now %s" % (self.what, _brief(self.arg)), arg=self.what.split(" ")[0], **S.fields())

    def scribble(self, deep=False):
        """the caller reuses its container after the call; deep: also edit nested-list cells / value arrays in place"""
        a = self.arg
        self.S.ctx.count("arguments_scribbled")
        if isinstance(a, np.ndarray):
            if deep and a.size and a.flags.writeable:
                a[...] = 77
            return
        if deep:
            for e in a:
                if isinstance(e, list) and e and isinstance(e[0], list) and e[0]:
                    e[0][0] = 4242
                    e.append(list(e[0]))
        if len(a):
            a[int(self.S.rng.integers(len(a)))] = "junk" if isinstance(a[0], str) else np.zeros((1, 1))
        a.append("junk" if (a and isinstance(a[0], str)) else np.zeros((2, 1)))


class Sess:
    """one history: live (real, model) pairs, the current target, bookkeeping for classifier fields"""

    def __init__(self, ctx, rng, ndim):
        self.ctx, self.rng, self.ndim = ctx, rng, ndim
        self.V = ctx.state["V"]
        self.live = []  # [real, model]
        self.cur = 0
        self.op = "setup"
        self.extra = {}
        self.abort = False
        self.ragged = False
        self.kind = "float"
        self.done_ops = []
        self.sparse = False  # True: no read of a live vector between operations
        self.held = []  # arrays the API returned as new arrays: [array, snapshot, description, op]
        self.held_mon = []  # same, from the dense monitor's own reads (replaced at every step)
        self.meta_serial = 0

    def fields(self, **kw):
        f = {"op": self.op, "ndim": len(self.live[self.cur][1].shape) if self.live else self.ndim, "obs": "sparse" if self.sparse else "dense"}  # ndim of the vector operated on
        f.update(self.extra)
        f.update(kw)
        return f

    @property
    def r(self):
        return self.live[self.cur][0]

    @property
    def m(self):
        return self.live[self.cur][1]

    # ---- running real calls ------------------------------------------------------------------
    def call(self, fn):
        """run a call into the library -> (result, exception-or-None); harness faults are re-raised"""
        self.ctx.state["depth"] = 0
        try:
            return fn(), None
        except Exception as e:  # noqa: BLE001
            through, _ = core.exception_origin(e)
            if not through:
                raise core.HarnessError("harness-side exception in op %s: %r" % (self.op, e)) from e
            return None, e

    def expect_ok(self, exc, what):
        return self.ctx.check(exc is None, "exception", lambda: "%s raised %s: %s" % (what, type(exc).__name__, str(exc)[:200]), **self.fields(exc_type=type(exc).__name__ if exc is not None else ""))

    def expect_raise(self, exc, what):
        return self.ctx.check(exc is not None, "invalid_accepted", "%s did not raise" % what, **self.fields())

    # ---- comparison of a returned value with the model's ------------------------------------------
    def compare_result(self, res, mres, what):
        from vf.refmodels.vector_model import VecModel

        f = self.fields()
        if isinstance(mres, VecModel):
            ok = isinstance(res, self.V)
            self.ctx.check(ok, "result_mismatch", lambda: "%s returned %s, expected a Vector of shape %r" % (what, _brief(res), mres.shape), part="type", **f)
            if not ok:
                return False
            self.ctx.state["quiet"] += 1
            try:
                inv = _class_invariant(self.ctx, res, f, "result")
                d = _state_diff(res, mres) if inv else "class invariant of the returned vector broken"
            finally:
                self.ctx.state["quiet"] -= 1
            return self.ctx.check(d is None, "result_mismatch", lambda: "%s: %s" % (what, d), part="block", **f)
        return self.ctx.check(_same(res, mres), "result_mismatch", lambda: "%s returned %s, expected %s" % (what, _brief(res), _brief(mres)), part="cell", **f)

    # ---- calls that must not change anything -------------------------------------------------------
    def neutral(self):
        """a call that is neutral on the unchanged tree, on a random live vector, followed by a comparison of all vectors"""
        rng, ctx = self.rng, self.ctx
        r, m = self.live[int(rng.integers(len(self.live)))]
        which = str(rng.choice(["repr", "str", "copy", "properties", "iterate", "asarray_field", "flatten", "deepcopy", "copy_module", "save"], p=[0.14, 0.1, 0.14, 0.14, 0.12, 0.1, 0.1, 0.08, 0.06, 0.02]))
        name = str(rng.choice(m.fields))

        def do():
            if which == "repr":
                return repr(r)
            if which == "str":
                return str(r)
            if which == "copy":
                return r.copy()
            if which == "properties":
                return (r.shape, r.fields, r.units, r.num_fields, r.name, r.metadata, r.data)
            if which == "iterate":
                return sum(1 for _ in r)
            if which == "asarray_field":
                return np.asarray(r[name])
            if which == "flatten":
                return r.flatten()
            if which == "deepcopy":
                return _copy.deepcopy(r)
            if which == "copy_module":
                return _copy.copy(r).shape
            import os

            path = os.path.join(ctx.tmp, "neutral_%d.zip" % int(rng.integers(1 << 30)))
            r.save(path, mode="o")
            os.remove(path)

        old = (self.op, self.extra)
        self.op, self.extra = "neutral_call", {"call": which}
        try:
            res, exc = self.call(do)
            if self.expect_ok(exc, "neutral call %s" % which):
                if which == "iterate":
                    ctx.check(res == m.shape[0], "result_mismatch", "iterating over the vector yielded %r items for a first axis of %d" % (res, m.shape[0]), part="iterate", **self.fields())
                ctx.state["quiet"] += 1
                try:
                    for j, (r2, m2) in enumerate(self.live):
                        d = _state_diff(r2, m2) if _class_invariant(ctx, r2, self.fields, "neutral") else "class invariant broken"
                        ctx.check(d is None, "neutral_call_changed_state", lambda: "after %s: %s" % (which, d), **self.fields())
                finally:
                    ctx.state["quiet"] -= 1
            ctx.count("neutral_calls")
        finally:
            self.op, self.extra = old

    # ---- returned values that must be new arrays ---------------------------------------------------
    def hold(self, arr, what, monitor=False):
        if isinstance(arr, np.ndarray) and arr.size <= 200000:  # (the size-threshold cases do not keep snapshots of 1e6-row results)
            lst = self.held_mon if monitor else self.held
            lst.append([arr, arr.copy(), what, self.op])
            if not monitor and len(lst) > 6:
                del lst[0]

    def check_held(self):
        """touches only arrays the harness holds, never a vector"""
        for lst in (self.held, self.held_mon):
            for e in list(lst):
                ok = self.ctx.check(_same(e[0], e[1]), "returned_value_changed", lambda: "the array returned by %s (during %s) changed under a later operation (%s): was %s, is %s" % (e[2], e[3], self.op, _brief(e[1]), _brief(e[0])), source=e[2].split("(")[0], **self.fields())
                if not ok:
                    lst.remove(e)

    def note_model(self):
        if not self.ragged:
            for r, m in self.live:
                rows = {m.cells[ix].shape[0] for ix in m.populated()}
                if len(rows) >= 2:
                    self.ragged = True

    # ---- after every operation (dense) / at the end of the history (sparse) -------------------------
    def post_step(self, mutated):
        ctx = self.ctx
        ctx.state["quiet"] += 1
        self.check_held()
        self.held_mon = []
        try:
            for j, (r, m) in enumerate(self.live):
                if not _class_invariant(ctx, r, self.fields, "step"):
                    self.abort = True
                    continue
                d = _state_diff(r, m)
                mech = "state_mismatch" if j == self.cur else "bystander_changed"
                if not ctx.check(d is None, mech, lambda: "after %s: %s" % (self.op, d), **self.fields()):
                    nm = _model_from_real(r)
                    if nm is None:
                        self.abort = True
                    else:
                        nm.meta_own, nm.meta_allowed = getattr(m, "meta_own", set()), getattr(m, "meta_allowed", set())
                        self.live[j][1] = nm
                    continue
                self.flatten_laws(r, m)
            if len(self.live) > 1 or mutated:
                self.storage()
            self.metadata_keys()
            self.note_model()
        finally:
            ctx.state["quiet"] -= 1

    def metadata_keys(self):
        """keys the harness wrote into one vector's metadata must be there and must not be in a vector that is neither
        that vector nor a later copy of it (whether copy() carries metadata over is not judged)"""
        written = set()
        for r, m in self.live:
            written |= getattr(m, "meta_own", set())
        if not written:
            return
        for j, (r, m) in enumerate(self.live):
            try:
                keys = set(r.metadata)
            except Exception as e:  # noqa: BLE001
                self.ctx.check(False, "metadata_leak", "reading metadata raised %r" % (e,), what="metadata", **self.fields())
                continue
            foreign = (keys & written) - getattr(m, "meta_allowed", set())
            self.ctx.check(not foreign, "metadata_leak", lambda: "metadata of a live vector holds key(s) %s written to another vector" % sorted(foreign), what="metadata", **self.fields())
            lost = getattr(m, "meta_own", set()) - keys
            self.ctx.check(not lost, "metadata_leak", lambda: "metadata key(s) %s written to this vector are gone" % sorted(lost), what="metadata", lost=True, **self.fields())

    def flatten_laws(self, r, m):
        ctx = self.ctx
        f = self.fields()
        cells = [c for c in _nesting_ok(r.data, m.shape)[1] if c is not None]  # row-major, nesting verified by the caller
        nf = len(m.fields)
        flat, exc = self.call(r.flatten)
        if self.expect_ok(exc, "flatten()"):
            want = np.concatenate(cells, axis=0) if cells else np.empty((0, nf))
            ctx.check(isinstance(flat, np.ndarray) and _same(flat, want), "flatten_law", lambda: "Vector.flatten() = %s, row-major concatenation = %s" % (_brief(flat), _brief(want)), law="vector_flatten", **f)
            self.hold(flat, "Vector.flatten()", monitor=True)
        for k, name in enumerate(m.fields):
            col, exc = self.call(lambda: r[name].flatten())
            if not self.expect_ok(exc, "v[%r].flatten()" % name):
                continue
            want = np.concatenate([c[:, k] for c in cells]) if cells else np.empty((0,))
            ctx.check(isinstance(col, np.ndarray) and col.ndim == 1 and _same(col, want), "flatten_law", lambda: "v[%r].flatten() = %s, row-major concatenation of column %d = %s" % (name, _brief(col), k, _brief(want)), law="field_flatten", **f)
            self.hold(col, "v[f].flatten()", monitor=True)

    def storage(self):
        """no list / dict / array storage may be shared between two live vectors"""
        ctx = self.ctx
        seen = {}
        spans = []
        shared = []
        keep = []  # keeps every inspected object alive so that id() values stay unique
        for j, (r, m) in enumerate(self.live):
            conts = [("fields", r.fields), ("units", r.units), ("metadata", r.metadata)]

            def walk(node):
                if isinstance(node, list):
                    conts.append(("lists", node))
                    for s in node:
                        walk(s)
                elif isinstance(node, np.ndarray):
                    conts.append(("cells", node))
                    if node.size:
                        lo, hi = _byte_bounds(node)
                        spans.append((lo, hi, j))

            walk(r.data)
            keep.append(conts)
            for what, obj in conts:
                o = seen.setdefault(id(obj), (j, what))
                if o[0] != j:
                    shared.append(what)
        spans.sort()
        top, owner = -1, None
        for lo, hi, j in spans:
            if lo < top and owner != j:
                shared.append("cell_memory")
            if hi > top:
                top, owner = hi, j
        for what in ("fields", "units", "metadata", "lists", "cells", "cell_memory"):
            ctx.check(what not in shared, "shared_storage", "two live vectors (copy / independently created) share their %s object" % what, what=what, **self.fields())

    # ---- construction ------------------------------------------------------------------------------
    def new_vector(self, shape, nf, via=None, fill=None, long_rows=None):
        from vf.refmodels.vector_model import VecModel

        rng, V = self.rng, self.V
        named = rng.random() < 0.7
        fields = [str(x) for x in rng.permutation(POOL if nf <= len(POOL) else ["c%03d" % i for i in range(nf + 20)])[:nf]] if named else None
        if fill is not None:
            via = "from_shape"
        units = [str(rng.choice(UNITS)) for _ in range(nf)] if rng.random() < 0.5 else None
        name = "vec%d" % len(self.live) if rng.random() < 0.5 else None
        via = via or ("from_data" if len(shape) == 1 and rng.random() < 0.4 else "from_shape")
        mfields = fields if named else ["field_%d" % i for i in range(nf)]
        if via == "from_data":
            cells = [_rand_cell(rng, nf, self.kind) for _ in range(shape[0])]
            aslists = rng.random() < 0.3
            data = [c.tolist() if (aslists and c.shape[0] > 0) else _layout(rng, c) for c in cells]
            kw = {}
            if fields is not None:
                kw["fields"] = list(fields)
            if fields is None or rng.random() < 0.3:
                kw["num_fields"] = nf
            if units is not None:
                kw["units"] = list(units)
            if name:
                kw["name"] = name
            watches = [ArgWatch(self, data, "data list of from_data")] + [ArgWatch(self, kw[k], "%s list of from_data" % k) for k in ("fields", "units") if k in kw]
            r, exc = self.call(lambda: V.from_data(data, **kw))
            if not self.expect_ok(exc, "from_data"):
                return None
            for w in watches:
                w.verify()
                w.scribble(deep=True)  # nested-list cells are converted (copied) by from_data; array cells are not touched
            m = VecModel.from_data([np.array(c.tolist()) if (aslists and c.shape[0] > 0) else c for c in cells], fields=mfields, units=units)
            return [r, m]
        kw = {"fields": list(fields)} if fields is not None else {"num_fields": nf}
        if units is not None:
            kw["units"] = list(units)
        if name:
            kw["name"] = name
        watches = [ArgWatch(self, kw[k], "%s list of from_shape" % k) for k in ("fields", "units") if k in kw]
        r, exc = self.call(lambda: V.from_shape(tuple(shape), **kw))
        if not self.expect_ok(exc, "from_shape"):
            return None
        for w in watches:
            w.verify()
            w.scribble()
        m = VecModel(shape, mfields, units)
        # populate through the cell-assignment paths; sometimes exactly one populated cell, the others unset
        only = m.order()[int(rng.integers(len(m.order())))] if (rng.random() < 0.15 and fill is None) else None
        first = True
        if fill is not None:
            self.ctx.state["quiet"] += 1  # size-threshold cases: no invariant walk over 1e5 cells after each of thousands of assignments
        for ix in m.order():
            if (only is None and rng.random() < (0.25 if fill is None else 1.0 - fill)) or (only is not None and ix != only):
                continue
            c = _rand_cell(rng, nf, self.kind, rows=long_rows if (first and long_rows) else None)
            first = False
            how = int(rng.integers(2))
            given = _layout(rng, c)
            _, exc = self.call((lambda: r.__setitem__(ix if len(ix) > 1 or rng.random() < 0.5 else ix[0], given)) if how == 0 else (lambda: r.set_data(given, *ix)))
            if self.expect_ok(exc, "cell assignment %r" % (ix,)):
                m.cells[ix] = c.copy()
        if fill is not None:
            self.ctx.state["quiet"] -= 1
        return [r, m]

    # ---- index expressions ---------------------------------------------------------------------------
    def index(self, shape, mode):
        """-> (tuple of per-axis expressions, pattern letters)"""
        rng = self.rng
        nd = len(shape)
        for _ in range(50):
            if mode == "cell":
                kinds = ["i"] * nd
            elif mode == "cell_neg":
                kinds = [("n" if rng.random() < 0.3 else "i") for _ in range(nd)]
            elif mode == "slice":
                kinds = [str(rng.choice(["i", "s", "s", "n"])) for _ in range(nd)]
                if "s" not in kinds:
                    kinds[int(rng.integers(nd))] = "s"
            elif mode == "slice_noneg":
                kinds = [str(rng.choice(["i", "s", "s"])) for _ in range(nd)]
                if "s" not in kinds:
                    kinds[int(rng.integers(nd))] = "s"
            elif mode in ("list", "list_unique"):
                kinds = [str(rng.choice(["i", "s"])) for _ in range(nd)]
                big = [a for a in range(nd) if shape[a] >= 2] if mode == "list_unique" else list(range(nd))
                kinds[int(rng.choice(big))] = str(rng.choice(["l", "a"] if mode == "list_unique" else ["l", "a", "r"]))
            elif mode in ("data", "data_multi"):
                kinds = [str(rng.choice(["i", "s", "s", "l", "a"] + (["r"] if mode == "data" else []))) for _ in range(nd)]
                if all(k == "i" for k in kinds):
                    kinds[int(rng.integers(nd))] = "s"
                la = [a for a in range(nd) if kinds[a] in "lar"]
                for a in la[1:]:
                    kinds[a] = "s"
            elif mode == "short":
                ln = int(rng.integers(1, nd)) if nd > 1 else 1
                kinds = [str(rng.choice(["i", "s", "s", "l"])) for _ in range(ln)]
                la = [a for a in range(ln) if kinds[a] == "l"]
                for a in la[1:]:
                    kinds[a] = "s"
                if nd == 1:
                    kinds = ["s"]
            else:
                raise core.HarnessError(mode)
            idx, pat = [], []
            for a, k in enumerate(kinds):
                uniq = mode in ("list_unique", "data_multi")
                e, kk = _axis(rng, shape[a], k, unique=uniq, minlen=2 if (mode == "list_unique" and k in "la") else 1)
                idx.append(e)
                pat.append(kk)
            if mode == "data_multi":
                # at least two addressed cells (a one-cell block takes the single-cell path in set_data)
                from vf.refmodels.vector_model import axis_positions

                n = int(np.prod([len(axis_positions(e, s, False)[1]) for e, s in zip(idx, shape)]))
                if n < 2:
                    continue
            return tuple(idx), pat
        raise core.HarnessError("no index for mode %s shape %r" % (mode, shape))

    def key(self, idx):
        if len(idx) == 1 and self.rng.random() < 0.7:
            return idx[0]
        return tuple(idx)

    # ---- generic read --------------------------------------------------------------------------------
    def do_getitem(self, j, idx, pat, opname=None):
        """v[idx] on live vector j compared with the model; returns the real result (None on failure)"""
        r, m = self.live[j]
        old = (self.op, self.extra)
        if opname:
            self.op = opname
        self.extra = _pattern_fields(pat, len(m.shape))
        try:
            mres = m.getitem(idx)
            k = self.key(idx)
            res, exc = self.call(lambda: r[k])
            if not self.expect_ok(exc, "v[%s]" % _fmt_idx(idx)):
                return None
            ok = self.compare_result(res, mres, "v[%s] on shape %r" % (_fmt_idx(idx), m.shape))
            return res if ok else None
        finally:
            self.op, self.extra = old

    # ---- generic mutation ----------------------------------------------------------------------------
    def mutate(self, real_fn, model_fn, what, watch=()):
        """model_fn(m) raises Invalid for calls outside the domain; watch: (argument, description, deep) triples, see ArgWatch"""
        from vf.refmodels.vector_model import Invalid

        watches = [(ArgWatch(self, a, d), deep) for a, d, deep in watch if isinstance(a, (list, np.ndarray))]

        m = self.m
        backup = m.clone()
        try:
            model_fn(m)
            valid = True
        except Invalid:
            valid = False
            m.__dict__.update(backup.__dict__)
        r = self.r
        _, exc = self.call(lambda: real_fn(r))
        if valid:
            if not self.expect_ok(exc, what):
                m.__dict__.update(backup.__dict__)
        else:
            self.expect_raise(exc, what)
        for w, deep in watches:
            w.verify()
            w.scribble(deep=deep)
        return exc


def _fmt_idx(idx):
    out = []
    for e in idx:
        if isinstance(e, slice):
            out.append("%s:%s%s" % ("" if e.start is None else e.start, "" if e.stop is None else e.stop, "" if e.step is None else ":%d" % e.step))
        elif isinstance(e, np.ndarray):
            out.append("array(%s)" % e.tolist())
        else:
            out.append(repr(e))
    return ", ".join(out)


# ------------------------------------------------------------------------------------------------
# the operations


def _op_set_cell(S, via):
    rng, m = S.rng, S.m
    idx, pat = S.index(m.shape, "cell_neg" if via == "item" else "cell")
    S.extra = _pattern_fields(pat, m.ndim)
    c = _rand_cell(rng, m.nf, S.kind)
    given = _layout(rng, c)
    if via == "item":
        k = S.key(idx)
        S.mutate(lambda r: r.__setitem__(k, given), lambda mm: mm.setitem(idx, c), "v[%s] = array%r" % (_fmt_idx(idx), c.shape))
    else:
        S.mutate(lambda r: r.set_data(given, *idx), lambda mm: mm.set_data(c, *idx), "set_data(array%r, %s)" % (c.shape, _fmt_idx(idx)))
    S.ctx.check(_same(given, c), "argument_modified", "the cell array handed to the assignment was modified by the call", arg="cell", **S.fields())
    return True


def _op_get_cell(S):
    m, r = S.m, S.r
    idx, pat = S.index(m.shape, "cell_neg")
    S.do_getitem(S.cur, idx, pat)
    idx, pat = S.index(m.shape, "cell")
    S.extra = _pattern_fields(pat, m.ndim)
    res, exc = S.call(lambda: r.get_data(*idx))
    if S.expect_ok(exc, "get_data(%s)" % _fmt_idx(idx)):
        S.compare_result(res, m.get_data(*idx)[1], "get_data(%s)" % _fmt_idx(idx))
    return False


def _op_get_block(S, mode):
    idx, pat = S.index(S.m.shape, mode)
    S.do_getitem(S.cur, idx, pat)
    return False


def _op_get_data_fancy(S):
    m, r = S.m, S.r
    idx, pat = S.index(m.shape, "data")
    S.extra = _pattern_fields(pat, m.ndim)
    what = "get_data(%s) on shape %r" % (_fmt_idx(idx), m.shape)
    res, exc = S.call(lambda: r.get_data(*idx))
    if not S.expect_ok(exc, what):
        return False
    kind, want = m.get_data(*idx)
    f = S.fields()
    if len(want) == 1 and not isinstance(res, list):
        res = [res]  # a one-cell block may come back bare
    ok = isinstance(res, list) and len(res) == len(want) and all(_same(a, b) for a, b in zip(res, want))
    S.ctx.check(ok, "result_mismatch", lambda: "%s returned %s, expected the row-major cells %s" % (what, _brief(res), _brief(want)), part="list", **f)
    return False


def _values_for(S, n, bad=None):
    rng, m = S.rng, S.m
    if bad == "cols":
        return [_rand_cell(rng, m.nf + 1, S.kind, rows=int(rng.integers(1, 3))) for _ in range(n)]
    if bad == "1d":
        return [np.zeros(m.nf) for _ in range(n)]
    return [_rand_cell(rng, m.nf, S.kind) for _ in range(n)]


def _count(m, idx, exact=True):
    _, pos = m._address(idx, neg_ok=True, exact=exact)
    return int(np.prod([len(p) for p in pos]))


def _op_set_block_list(S, mode, via):
    m = S.m
    if mode == "list_unique" and max(m.shape) < 2:
        mode = "slice_noneg"
    if mode == "data_multi" and max(m.shape) < 2:
        return _op_set_cell(S, "data")  # a one-cell vector has no block of two cells
    idx, pat = S.index(m.shape, mode)
    S.extra = _pattern_fields(pat, m.ndim)
    _, pos = m._address(idx, neg_ok=True, exact=True)
    targets = list(itertools.product(*pos))
    if S.rng.random() < 0.15 and len(targets) >= 2 and all(m.cells[t] is not None for t in targets):
        # an output fed back in: the list get_data returns for a block is assigned to the same block -> nothing changes
        r = S.r
        got, exc = S.call(lambda: r.get_data(*idx))
        S.extra = dict(S.extra, value="get_data_result")
        if S.expect_ok(exc, "get_data(%s)" % _fmt_idx(idx)) and isinstance(got, list):
            same = lambda mm: mm.setitem(idx, [mm.cells[t].copy() for t in targets])  # noqa: E731
            if via == "item":
                k = S.key(idx)
                S.mutate(lambda rr: rr.__setitem__(k, got), same, "v[%s] = get_data(%s)" % (_fmt_idx(idx), _fmt_idx(idx)))
            else:
                S.mutate(lambda rr: rr.set_data(got, *idx), same, "set_data(get_data(%s), %s)" % (_fmt_idx(idx), _fmt_idx(idx)))
        return True
    vals = _values_for(S, len(targets))
    given = [_layout(S.rng, v) for v in vals]
    if via == "item":
        k = S.key(idx)
        S.mutate(lambda r: r.__setitem__(k, given), lambda mm: mm.setitem(idx, vals), "v[%s] = list of %d arrays (shape %r)" % (_fmt_idx(idx), len(vals), m.shape), watch=[(given, "value list of __setitem__", False)])
    else:
        S.mutate(lambda r: r.set_data(given, *idx), lambda mm: mm.set_data(vals, *idx), "set_data(list of %d arrays, %s) (shape %r)" % (len(vals), _fmt_idx(idx), m.shape), watch=[(given, "value list of set_data", False)])
    return True


def _op_set_slice_vector(S):
    from vf.refmodels.vector_model import VecModel

    rng, m = S.rng, S.m
    mode = "slice_noneg" if (rng.random() < 0.6 or max(m.shape) < 2) else "list_unique"
    idx, pat = S.index(m.shape, mode)
    n = _count(m, idx)
    value = mvalue = None
    cands = [j for j, (r2, m2) in enumerate(S.live) if m2.nf == m.nf]
    for _ in range(12):
        j = int(rng.choice(cands))
        m2 = S.live[j][1]
        # (no repeated positions in the source block: copy() of a view that lists a cell twice keeps the two entries
        # one object, and the workload must not create aliases itself)
        sidx, spat = S.index(m2.shape, "slice" if (rng.random() < 0.7 or max(m2.shape) < 2) else "list_unique")
        if _count(m2, sidx) != n:
            continue
        mv = m2.getitem(sidx)
        if not isinstance(mv, VecModel) or any(c is None for c in mv.cells.values()):
            continue
        view = S.do_getitem(j, sidx, spat, opname="get_slice" if "l" not in spat and "a" not in spat else "get_list")
        if view is None:
            break
        cp, exc = S.call(view.copy)
        old = S.op
        S.op = "copy"
        ok = S.expect_ok(exc, "view.copy()") and S.compare_result(cp, mv, "v[%s].copy()" % _fmt_idx(sidx))
        S.op = old
        if ok:
            value, mvalue = cp, mv
        break
    if value is None:
        cells = _values_for(S, n)
        value, exc = S.call(lambda: S.V.from_data([c.copy() for c in cells], num_fields=m.nf))
        if exc is not None:
            S.expect_ok(exc, "from_data")
            return False
        mvalue = VecModel.from_data(cells)
        mvalue.fields = list(m.fields)
    S.extra = dict(_pattern_fields(pat, m.ndim), value="vector")
    k = S.key(idx)
    S.mutate(lambda r: r.__setitem__(k, value), lambda mm: mm.setitem(idx, mvalue), "v[%s] = Vector of shape %r (target shape %r)" % (_fmt_idx(idx), mvalue.shape, m.shape))
    return True


def _op_set_short(S):
    """assignment with fewer indices than axes: raise (state unchanged) or act on all trailing axes"""
    from vf.refmodels.vector_model import Invalid

    rng, m, r = S.rng, S.m, S.r
    if m.ndim == 1:
        return _op_set_block_list(S, "slice_noneg", "item")
    idx, pat = S.index(m.shape, "short")
    S.extra = _pattern_fields(pat, m.ndim)
    variant = int(rng.integers(3))
    if variant == 0:
        value = _rand_cell(rng, m.nf, S.kind)  # a bare array can never fill a block
        desc = "array%r" % (value.shape,)
    elif variant == 1:
        value = _values_for(S, _count(m, idx, exact=False))  # one array per cell of the padded block
        desc = "list of %d arrays" % len(value)
    else:
        _, pos = m._address(idx, neg_ok=True, exact=False)
        value = _values_for(S, int(np.prod([len(p) for p in pos[: len(idx)]])))  # one per position of the given axes only
        desc = "list of %d arrays" % len(value)
    trial = m.clone()
    try:
        trial.setitem_padded(idx, value)
        padded_ok = True
    except Invalid:
        padded_ok = False
    k = S.key(idx)
    what = "v[%s] = %s on shape %r (fewer indices than axes)" % (_fmt_idx(idx), desc, m.shape)
    _, exc = S.call(lambda: r.__setitem__(k, [v.copy() for v in value] if isinstance(value, list) else value.copy()))
    if exc is None:
        if padded_ok:
            m.__dict__.update(trial.__dict__)
        else:
            S.expect_raise(exc, what)
    else:
        S.ctx.count("short_assignment_rejected")
    return True


def _pick_field(S):
    return str(S.rng.choice(S.m.fields))


def _op_iop(S, op):
    rng, m = S.rng, S.m
    name = _pick_field(S)
    if S.kind != "float":
        # integer (or mixed) cells: integer-closed arithmetic only; with mixed cells the integers additionally stay far below
        # 2**53 so that the float64 flattened view of an integer column is exact
        if op == "itruediv":
            op = "ifloordiv"
        if op == "ipow":
            other = int(rng.choice([0, 1, 2] if S.kind == "int" else [0, 1]))
        elif op == "imul":
            other = int(rng.choice([1, 2, 3, 5] if S.kind == "int" else [-1, 1, 2]))
        else:
            other = int(rng.choice([1, 2, 3, 5]))
    else:
        other = float(rng.choice([2.0, -1.5, 0.5, 3.0, 1.25])) if op != "ipow" else float(rng.choice([2.0, 0.5, 1.0, 0.0]))  # (x**3.0 goes through pow(), whose last bit depends on the SIMD path numpy picks for the array layout)
        if rng.random() < 0.2:
            other = np.float64(other)
        elif rng.random() < 0.2 and float(other).is_integer():
            other = int(other)
    S.extra = {"operand": type(other).__name__}

    def real(r):
        fv = r[name]
        if op == "iadd":
            fv += other
        elif op == "isub":
            fv -= other
        elif op == "imul":
            fv *= other
        elif op == "itruediv":
            fv /= other
        elif op == "ifloordiv":
            fv //= other
        elif op == "imod":
            fv %= other
        else:
            fv **= other

    def real_item(r):  # the documented spelling: v['f'] += s  (getitem, in-place op, setitem with the returned view)
        if op == "iadd":
            r[name] += other
        elif op == "isub":
            r[name] -= other
        elif op == "imul":
            r[name] *= other
        elif op == "itruediv":
            r[name] /= other
        elif op == "ifloordiv":
            r[name] //= other
        elif op == "imod":
            r[name] %= other
        else:
            r[name] **= other

    S.mutate(real_item if rng.random() < 0.5 else real, lambda mm: mm.field_iop(name, op, other), "v[%r] %s %r" % (name, op, other))
    return True


def _op_flatten(S):
    r, m = S.r, S.m
    res, exc = S.call(r.flatten)
    if S.expect_ok(exc, "flatten()"):
        want = m.flatten()
        S.ctx.check(isinstance(res, np.ndarray) and res.ndim == 2 and _same(res, want), "result_mismatch", lambda: "flatten() = %s, model %s" % (_brief(res), _brief(want)), part="flatten", **S.fields())
        S.hold(res, "Vector.flatten()")
    return False


def _op_field_flatten(S):
    r, m = S.r, S.m
    name = _pick_field(S)
    res, exc = S.call(lambda: np.asarray(r[name]) if S.rng.random() < 0.3 else r[name].flatten())
    if S.expect_ok(exc, "v[%r].flatten()" % name):
        want = m.field_flatten(name)
        S.ctx.check(isinstance(res, np.ndarray) and _same(res, want), "result_mismatch", lambda: "v[%r].flatten() = %s, model %s" % (name, _brief(res), _brief(want)), part="field_flatten", **S.fields())
        S.hold(res, "v[f].flatten()")
    return False


def _roundtrip(S, j, name, how):
    """writing a field's flattened view back must restore the same data"""
    r, m = S.live[j]
    before = [None if c is None else c.copy() for c in (m.cells[ix] for ix in m.order())]
    flat, exc = S.call(lambda: r[name].flatten())
    if not S.expect_ok(exc, "v[%r].flatten()" % name):
        return
    _, exc = S.call((lambda: r[name].set_flattened(flat.copy())) if how == 0 else (lambda: r.__setitem__(name, flat.copy())))
    if not S.expect_ok(exc, "set_flattened(flatten())"):
        return
    good, leaves = _nesting_ok(r.data, m.shape)
    same = good and all(_same(a, b) for a, b in zip(leaves, before))
    S.ctx.check(same, "flatten_law", lambda: "set_flattened(flatten()) of field %r changed the data" % name, law="roundtrip", **S.fields())


def _op_field_roundtrip(S):
    _roundtrip(S, S.cur, _pick_field(S), int(S.rng.integers(2)))
    return True


def _op_field_set(S, how):
    """write a whole field: from fresh values (array / list) or from an output of the API fed back in (the field view of
    another -- or the same -- field of this vector, of a copy, of another live vector with as many rows, a flattened field)"""
    rng, m, r = S.rng, S.m, S.r
    name = _pick_field(S)
    total = sum(m.cells[ix].shape[0] for ix in m.populated())
    source = str(rng.choice(["fresh", "fresh", "fresh", "view_same_vector", "view_same_vector", "view_of_copy", "view_other_vector", "flattened_other_field"]))
    S.extra = {"value": source}
    if source != "fresh":
        j = S.cur
        if source == "view_other_vector":
            cands = [i for i, (_, m2) in enumerate(S.live) if i != S.cur and sum(m2.cells[ix].shape[0] for ix in m2.populated()) == total]
            if not cands:
                source = S.extra["value"] = "view_same_vector"
            else:
                j = int(rng.choice(cands))
        src_r, src_m = S.live[j]
        other = str(rng.choice(src_m.fields))
        vals = src_m.field_flatten(other)  # (a value: taken before the write)
        if source == "view_of_copy":
            src_r, exc = S.call(src_r.copy)
            if not S.expect_ok(exc, "copy()"):
                return False
        desc = "v[%r] <- %s[%r] (%s)" % (name, "v" if source == "view_same_vector" else "w", other, source)
        if source == "flattened_other_field":
            get = lambda: src_r[other].flatten()  # noqa: E731
        else:
            get = lambda: src_r[other]  # noqa: E731  (a field view object, not an array)
        if how == "set_flattened":
            S.mutate(lambda rr: rr[name].set_flattened(get()), lambda mm: mm.set_flattened(name, vals), desc + " via set_flattened")
        else:
            S.mutate(lambda rr: rr.__setitem__(name, get()), lambda mm: mm.set_flattened(name, vals), desc + " via v[name] = ...")
        return True
    vals = rng.integers(-20, 21, size=total).astype(np.float64) if S.kind != "float" or rng.random() < 0.3 else np.round(rng.normal(size=total) * 3, 2)
    given = vals.tolist() if rng.random() < 0.2 else vals.copy()
    if isinstance(given, np.ndarray):
        form = int(rng.integers(5))
        if form == 1:
            given.setflags(write=False)
        elif form == 2:
            big = np.zeros(2 * len(vals))
            big[::2] = vals
            given = big[::2]
        elif form == 3:
            given = vals[::-1].copy()[::-1]
    if how == "set_flattened":
        S.mutate(lambda r: r[name].set_flattened(given), lambda mm: mm.set_flattened(name, vals), "v[%r].set_flattened(%d values)" % (name, total), watch=[(given, "values of set_flattened", True)])
    else:
        S.mutate(lambda r: r.__setitem__(name, given), lambda mm: mm.set_flattened(name, vals), "v[%r] = %d values" % (name, total), watch=[(given, "values of field assignment", True)])
    return True


def _op_field_getitem(S):
    from vf.refmodels.vector_model import VecModel

    rng, m, r = S.rng, S.m, S.r
    name = _pick_field(S)
    k = m.fields.index(name)
    idx, pat = S.index(m.shape, str(rng.choice(["cell", "slice", "list"])))
    S.extra = _pattern_fields(pat, m.ndim)
    mres = m.getitem(idx)
    key = S.key(idx)
    what = "v[%r][%s] on shape %r" % (name, _fmt_idx(idx), m.shape)
    if isinstance(mres, VecModel):
        res, exc = S.call(lambda: r[name][key].flatten())
        want = mres.field_flatten(name)
    else:
        res, exc = S.call(lambda: r[name][key])
        want = None if mres is None else mres[:, k]
    if S.expect_ok(exc, what):
        S.ctx.check(_same(res, want), "result_mismatch", lambda: "%s = %s, model %s" % (what, _brief(res), _brief(want)), part="field_getitem", **S.fields())
    return False


def _fresh_names(S, n):
    have = set(S.m.fields)
    names = [p for p in POOL + ["f%d" % i for i in range(14)] if p not in have]
    if len(names) < n + 4:
        names += [g for g in ("g%03d" % i for i in range(len(have) + n + 8)) if g not in have]
    return [str(x) for x in S.rng.permutation(names)[:n]]


def _op_add_fields(S, how):
    rng, m = S.rng, S.m
    if m.nf >= 16:
        return _op_remove_fields(S, "list")
    if how == "str":
        new = _fresh_names(S, 1)[0]
    else:
        new = _fresh_names(S, int(rng.integers(1, 4)))
        if rng.random() < 0.3:
            new = tuple(new)
    given = new if isinstance(new, str) else type(new)(new)
    S.mutate(lambda r: r.add_fields(given), lambda mm: mm.add_fields(new), "add_fields(%r)" % (new,), watch=[(given, "names list of add_fields", False)])
    return True


def _op_remove_fields(S, how):
    rng, m = S.rng, S.m
    if m.nf <= 1:
        return _op_add_fields(S, "list")
    if how == "str":
        names = _pick_field(S) if rng.random() < 0.85 else "no_such_field"
    else:
        k = int(rng.integers(1, m.nf))
        if m.nf >= 6 and rng.random() < 0.4:
            k = m.nf - int(rng.integers(1, 5))  # bulk removal: only a handful of fields survive
        names = [str(x) for x in rng.permutation(m.fields)[:k]]  # (any name order)
        if rng.random() < 0.3:
            names.insert(int(rng.integers(len(names) + 1)), "no_such_field")
        if rng.random() < 0.2:
            names.append(names[0])
    given = names if isinstance(names, str) else list(names)
    S.mutate(lambda r: r.remove_fields(given), lambda mm: mm.remove_fields(names), "remove_fields(%r)" % (names,), watch=[(given, "names list of remove_fields", False)])
    return True


def _op_copy(S):
    r, m = S.r, S.m
    cp, exc = S.call(r.copy)
    if not S.expect_ok(exc, "copy()"):
        return False
    mc = m.copy()
    mc.meta_own, mc.meta_allowed = set(), set(getattr(m, "meta_allowed", set()))  # a copy may carry its source's metadata
    if S.compare_result(cp, mc, "copy()"):
        S.live.append([cp, mc])
        if S.rng.random() < 0.5:
            S.cur = len(S.live) - 1
    return True


def _op_new_vector(S):
    rng, m = S.rng, S.m
    same_schema = rng.random() < 0.6
    shape = m.shape if rng.random() < 0.5 else _rand_shape(rng, int(rng.integers(1, 4)))
    pair = S.new_vector(shape, m.nf if same_schema else int(rng.integers(1, 5)))
    if pair is not None:
        S.live.append(pair)
        if rng.random() < 0.5:
            S.cur = len(S.live) - 1
    return True


def _op_metadata(S):
    rng, r, m = S.rng, S.r, S.m
    S.meta_serial += 1
    key = "k%d_%d" % (S.meta_serial, int(rng.integers(1000)))
    val = [int(rng.integers(100))]
    snap = None if S.sparse else [_copy.deepcopy(dict(rr.metadata)) for rr, _ in S.live]
    _, exc = S.call(lambda: r.metadata.__setitem__(key, val))
    if not S.expect_ok(exc, "metadata[%r] = ..." % key):
        return True
    m.meta_own = getattr(m, "meta_own", set()) | {key}
    m.meta_allowed = getattr(m, "meta_allowed", set()) | {key}
    if snap is not None:  # dense: immediate comparison; sparse: Sess.metadata_keys() at the end of the history
        leaked = [j for j, (rr, _) in enumerate(S.live) if j != S.cur and dict(rr.metadata) != snap[j]]
        S.ctx.check(not leaked, "metadata_leak", "writing metadata[%r] of one vector changed the metadata of %d other live vector(s)" % (key, len(leaked)), what="metadata", **S.fields())
        S.ctx.check(r.metadata.get(key) == val, "metadata_leak", "metadata write not visible on the vector itself", what="metadata", lost=True, **S.fields())
    return True


def _op_invalid_set(S):
    rng, m = S.rng, S.m
    variant = str(rng.choice(["item_cols", "item_1d", "item_3d", "data_cols", "block_cols", "block_count", "data_block_cols", "from_data_cols", "from_data_3d", "data_1d"]))
    S.extra = {"variant": variant}
    idx, pat = S.index(m.shape, "cell")
    k = S.key(idx)
    rows = int(rng.integers(1, 4))
    if variant == "item_cols":
        v = _rand_cell(rng, m.nf + int(rng.choice([1, 2])), S.kind, rows)
        S.mutate(lambda r: r.__setitem__(k, v), lambda mm: mm.setitem(idx, v), "v[cell] = array%r for %d fields" % (v.shape, m.nf))
    elif variant == "item_1d":
        v = np.zeros(m.nf)
        S.mutate(lambda r: r.__setitem__(k, v), lambda mm: mm.setitem(idx, v), "v[cell] = 1-D array")
    elif variant == "item_3d":
        v = np.zeros((rows, m.nf, 2))
        S.mutate(lambda r: r.__setitem__(k, v), lambda mm: mm.setitem(idx, v), "v[cell] = 3-D array")
    elif variant == "data_cols":
        v = _rand_cell(rng, max(1, m.nf - 1) if m.nf > 1 else 2, S.kind, rows)
        S.mutate(lambda r: r.set_data(v, *idx), lambda mm: mm.set_data(v, *idx), "set_data(array%r) for %d fields" % (v.shape, m.nf))
    elif variant == "data_1d":
        v = np.zeros(m.nf)
        S.mutate(lambda r: r.set_data(v, *idx), lambda mm: mm.set_data(v, *idx), "set_data(1-D array)")
    elif variant in ("block_cols", "data_block_cols", "block_count"):
        if variant == "data_block_cols" and max(m.shape) < 2:
            variant = "block_cols"
        bidx, bpat = S.index(m.shape, "data_multi" if variant == "data_block_cols" else "slice_noneg")
        S.extra.update(_pattern_fields(bpat, m.ndim))
        n = _count(m, bidx)
        if variant == "block_count":
            vals = _values_for(S, n + int(rng.choice([-1, 1, 2])))
        else:
            vals = _values_for(S, n, bad=str(rng.choice(["cols", "1d"])))
        bk = S.key(bidx)
        if variant == "data_block_cols":
            S.mutate(lambda r: r.set_data(vals, *bidx), lambda mm: mm.set_data(vals, *bidx), "set_data(list of invalid arrays, %s)" % _fmt_idx(bidx))
        else:
            S.mutate(lambda r: r.__setitem__(bk, vals), lambda mm: mm.setitem(bidx, vals), "v[%s] = %d arrays (%s) for %d cells" % (_fmt_idx(bidx), len(vals), variant, n))
    else:
        good = [_rand_cell(rng, m.nf, S.kind, rows=int(rng.integers(1, 4))) for _ in range(int(rng.integers(2, 4)))]
        bad = np.zeros((2, m.nf, 3)) if variant == "from_data_3d" else np.zeros((2, m.nf + 1))
        good.insert(int(rng.integers(0, len(good) + 1)) if variant == "from_data_3d" else int(rng.integers(1, len(good) + 1)), bad)
        res, exc = S.call(lambda: S.V.from_data(good))
        S.expect_raise(exc, "from_data with a cell of shape %r among cells with %d columns" % (bad.shape, m.nf))
    return True


def _op_invalid_fields(S):
    rng, m = S.rng, S.m
    variant = str(rng.choice(["add_existing", "add_existing_in_list", "add_duplicate", "get_unknown", "set_unknown", "flat_len", "flat_2d", "from_shape_dup", "from_shape_units"]))
    S.extra = {"variant": variant}
    name = _pick_field(S)
    total = sum(m.cells[ix].shape[0] for ix in m.populated())
    if variant == "add_existing":
        S.mutate(lambda r: r.add_fields(name), lambda mm: mm.add_fields(name), "add_fields(existing %r)" % name)
    elif variant == "add_existing_in_list":
        new = _fresh_names(S, 1) + [name]
        S.mutate(lambda r: r.add_fields(list(new)), lambda mm: mm.add_fields(new), "add_fields(%r) with an existing name" % (new,))
    elif variant == "add_duplicate":
        n = _fresh_names(S, 1)[0]
        S.mutate(lambda r: r.add_fields([n, n]), lambda mm: mm.add_fields([n, n]), "add_fields([%r, %r])" % (n, n))
    elif variant == "get_unknown":
        S.mutate(lambda r: r["no_such_field"], lambda mm: mm._col("no_such_field"), "v['no_such_field']")
    elif variant == "set_unknown":
        S.mutate(lambda r: r.__setitem__("no_such_field", np.zeros(total)), lambda mm: mm.set_flattened("no_such_field", np.zeros(total)), "v['no_such_field'] = values")
    elif variant == "flat_len":
        vals = np.zeros(total + int(rng.choice([1, 2, -1])) if total > 0 else 1)
        S.mutate(lambda r: r[name].set_flattened(vals), lambda mm: mm.set_flattened(name, vals), "set_flattened(%d values) for %d rows" % (len(vals), total))
    elif variant == "flat_2d":
        vals = np.zeros((max(total, 1), 1))
        S.mutate(lambda r: r[name].set_flattened(vals), lambda mm: mm.set_flattened(name, vals), "set_flattened(2-D values)")
    elif variant == "from_shape_dup":
        _, exc = S.call(lambda: S.V.from_shape(m.shape, fields=["a", "b", "a"]))
        S.expect_raise(exc, "from_shape with duplicate field names")
    else:
        _, exc = S.call(lambda: S.V.from_shape(m.shape, fields=["a", "b"], units=["m"]))
        S.expect_raise(exc, "from_shape with 1 unit for 2 fields")
    return True


def _op_invalid_index(S):
    rng, m = S.rng, S.m
    variant = str(rng.choice(["get_data_neg", "get_data_oob", "get_data_count", "set_data_neg", "set_data_oob", "set_data_count", "item_oob", "setitem_oob", "list_oob"]))
    S.extra = {"variant": variant}
    idx, _ = S.index(m.shape, "cell")
    idx = [int(i) for i in idx]
    a = int(rng.integers(m.ndim))
    c = _rand_cell(rng, m.nf, S.kind)
    if variant.endswith("_neg"):
        idx[a] = -int(rng.integers(1, m.shape[a] + 1))
    elif variant.endswith("_oob") and variant != "list_oob":
        idx[a] = m.shape[a] + int(rng.integers(0, 2))
    t = tuple(idx)
    if variant in ("get_data_neg", "set_data_neg"):
        # the library rejects negative positions here; accepting them with the usual meaning would be just as good
        r = S.r
        what = "%s(%s) on shape %r" % (variant[:8], _fmt_idx(t), m.shape)
        if variant == "get_data_neg":
            res, exc = S.call(lambda: r.get_data(*t))
            if exc is None:
                S.compare_result(res, m.getitem(t), what)
        else:
            _, exc = S.call(lambda: r.set_data(c.copy(), *t))
            if exc is None:
                m.setitem(t, c)
        S.ctx.count("negative_position_rejected" if exc is not None else "negative_position_accepted")
    elif variant.startswith("get_data"):
        if variant == "get_data_count":
            t = t[:-1] if rng.random() < 0.5 else t + (0,)
        S.mutate(lambda r: r.get_data(*t), lambda mm: mm.get_data(*t), "get_data(%s) on shape %r" % (_fmt_idx(t), m.shape))
    elif variant.startswith("set_data"):
        if variant == "set_data_count":
            t = t[:-1] if rng.random() < 0.5 else t + (0,)
        S.mutate(lambda r: r.set_data(c.copy(), *t), lambda mm: mm.set_data(c, *t), "set_data(array, %s) on shape %r" % (_fmt_idx(t), m.shape))
    elif variant == "item_oob":
        S.mutate(lambda r: r[t], lambda mm: mm.getitem(t), "v[%s] on shape %r" % (_fmt_idx(t), m.shape))
    elif variant == "setitem_oob":
        S.mutate(lambda r: r.__setitem__(t, c.copy()), lambda mm: mm.setitem(t, c), "v[%s] = array on shape %r" % (_fmt_idx(t), m.shape))
    else:
        e = list(idx)
        e[a] = [int(rng.integers(m.shape[a])), m.shape[a] + int(rng.integers(0, 2))]
        if rng.random() < 0.5:
            e[a].reverse()
        te = tuple(e)
        S.mutate(lambda r: r[te], lambda mm: mm.getitem(te), "v[%s] on shape %r" % (_fmt_idx(te), m.shape))
    return True


def _iop_stmt(r, name, op, other):
    if op == "iadd":
        r[name] += other
    elif op == "isub":
        r[name] -= other
    elif op == "imul":
        r[name] *= other
    elif op == "itruediv":
        r[name] /= other
    elif op == "ifloordiv":
        r[name] //= other
    elif op == "imod":
        r[name] %= other
    else:
        r[name] **= other


def _rand_iop(S):
    rng = S.rng
    if S.kind == "int":
        return str(rng.choice(["iadd", "isub", "imul"])), int(rng.choice([2, 3, 5]))
    if S.kind == "mixed":
        op = str(rng.choice(["iadd", "isub", "imul"]))
        return op, (2 if op == "imul" else int(rng.choice([2, 3, 5])))
    return str(rng.choice(["iadd", "isub", "imul", "itruediv"])), float(rng.choice([2.0, -1.5, 0.5, 3.0]))


def _op_schema_churn(S):
    """[by-name access,] remove k fields, add k fields [, by-name access / arithmetic / write-back] with nothing observed
    in between: the field count is the same before and after, the columns behind the names are not"""
    rng, m, r = S.rng, S.m, S.r
    if rng.random() < 0.6:
        name = _pick_field(S)
        res, exc = S.call(lambda: r[name].flatten())
        if S.expect_ok(exc, "v[%r].flatten()" % name):
            S.compare_result(res, m.field_flatten(name), "v[%r].flatten()" % name)
    k = int(rng.integers(1, 3))
    if m.nf >= 2 and rng.random() < 0.75:
        k = min(k, m.nf - 1)
        # favour early columns so that surviving fields move
        order = list(m.fields) if rng.random() < 0.6 else [str(x) for x in rng.permutation(m.fields)]
        gone = order[:k]
        style = int(rng.integers(3))
        new = list(gone) if style == 0 else (_fresh_names(S, k) if style == 1 else (gone[:1] + _fresh_names(S, k - 1)))
        if rng.random() < 0.5:
            new.reverse()
        S.extra = {"variant": "remove_add"}
        S.mutate(lambda rr: rr.remove_fields(list(gone) if len(gone) > 1 or rng.random() < 0.5 else gone[0]), lambda mm: mm.remove_fields(gone), "remove_fields(%r)" % (gone,))
        S.mutate(lambda rr: rr.add_fields(list(new)), lambda mm: mm.add_fields(new), "add_fields(%r) after remove_fields(%r)" % (new, gone))
    else:
        new = _fresh_names(S, k)
        gone = [str(x) for x in (m.fields[:k] if rng.random() < 0.6 else rng.permutation(m.fields)[:k])]
        S.extra = {"variant": "add_remove"}
        S.mutate(lambda rr: rr.add_fields(list(new)), lambda mm: mm.add_fields(new), "add_fields(%r)" % (new,))
        S.mutate(lambda rr: rr.remove_fields(list(gone)), lambda mm: mm.remove_fields(gone), "remove_fields(%r) after add_fields(%r)" % (gone, new))
    m = S.m
    follow = int(rng.integers(4))
    if follow == 0:
        return True
    # a field that existed before (its column moved) or a re-created name, before any brand-new name is asked for
    old_names = [f for f in m.fields if f not in new or f in gone]
    name = str(rng.choice(old_names)) if old_names else _pick_field(S)
    S.extra = dict(S.extra, follow=["none", "flatten", "arithmetic", "write_back"][follow])
    if follow == 1:
        res, exc = S.call(lambda: r[name].flatten())
        if S.expect_ok(exc, "v[%r].flatten()" % name):
            S.compare_result(res, m.field_flatten(name), "v[%r].flatten() after remove/add of other fields" % name)
    elif follow == 2:
        op, other = _rand_iop(S)
        S.mutate(lambda rr: _iop_stmt(rr, name, op, other), lambda mm: mm.field_iop(name, op, other), "v[%r] %s %r after remove/add of other fields" % (name, op, other))
    else:
        total = sum(m.cells[ix].shape[0] for ix in m.populated())
        vals = rng.integers(-20, 21, size=total).astype(np.float64)
        S.mutate(lambda rr: rr[name].set_flattened(vals.copy()), lambda mm: mm.set_flattened(name, vals), "v[%r].set_flattened(...) after remove/add of other fields" % name)
    return True


def _op_flatten_modify_restore(S):
    """saved = v[f].flatten(); v[f] op= c; v[f].set_flattened(saved)  ->  the data is what it was before the arithmetic"""
    rng, m, r = S.rng, S.m, S.r
    name = _pick_field(S)
    op, other = _rand_iop(S)
    rows = [ix for ix in m.populated() if m.cells[ix].shape[0] > 0]
    variant = str(rng.choice(["whole", "whole", "one_cell_view", "one_cell_view", "caller_edit"]))
    if variant == "one_cell_view" and not rows:
        variant = "whole"
    S.extra = {"variant": variant}
    if variant == "one_cell_view":
        # a block expression that addresses exactly one (populated) cell: v[i:i+1, j], v[[i], j, k:k+1], ...
        ix = rows[int(rng.integers(len(rows)))]
        idx, pat = [], []
        for a, i in enumerate(ix):
            form = int(rng.integers(3))
            idx.append([slice(i, i + 1), [int(i)], int(i)][form])
            pat.append("sli"[form])
        if all(p == "i" for p in pat):
            a = int(rng.integers(len(ix)))
            idx[a], pat[a] = slice(ix[a], ix[a] + 1), "s"
        if pat.count("l") > 1:
            for a in [a for a, p in enumerate(pat) if p == "l"][1:]:
                idx[a], pat[a] = slice(ix[a], ix[a] + 1), "s"
        S.extra.update(_pattern_fields(pat, m.ndim))
        target, exc = S.call(lambda: r[S.key(tuple(idx))])
        if not S.expect_ok(exc, "v[%s]" % _fmt_idx(idx)) or not isinstance(target, S.V):
            return False
        where = "v[%s]" % _fmt_idx(idx)
        want = m.cells[ix][:, m.fields.index(name)].copy()
    else:
        target, where, want = r, "v", m.field_flatten(name)
    saved, exc = S.call(lambda: target[name].flatten())
    if not S.expect_ok(exc, "%s[%r].flatten()" % (where, name)):
        return False
    if not S.compare_result(saved, want, "%s[%r].flatten()" % (where, name)):
        return False
    S.hold(saved, "v[f].flatten()")
    if variant == "caller_edit":
        # the caller scribbles over the array it was handed; the vector must not notice
        if S.held and S.held[-1][0] is saved:
            S.held.pop()
        mine = saved
        if mine.flags.writeable and mine.size:
            mine[...] = 0
            S.ctx.count("caller_edits")
        return True
    # model: arithmetic, then the saved *values* are written back -> identical to the state before
    _, exc = S.call(lambda: _iop_stmt(target, name, op, other))
    if not S.expect_ok(exc, "%s[%r] %s %r" % (where, name, op, other)):
        return True
    S.check_held()
    _, exc = S.call(lambda: target[name].set_flattened(saved))
    S.expect_ok(exc, "%s[%r].set_flattened(saved)" % (where, name))
    return True


def _op_partial_block_failure(S):
    """[write-back of a field,] a block assignment whose value list starts with valid arrays (row counts different from the
    cells they replace) and then holds an invalid one: the call must raise; which of the valid arrays were stored before
    the failure is not part of the property, so the addressed cells are read back one by one (each must hold either its
    old value or the array offered for it) and adopted by the model; then a follow-up (write-back round trip, arithmetic,
    wrong-length write-back) is judged against that state."""
    rng, m, r = S.rng, S.m, S.r
    if max(m.shape) < 2:
        return _op_invalid_set(S)
    if rng.random() < 0.7:
        _roundtrip(S, S.cur, _pick_field(S), int(rng.integers(2)))
    via = str(rng.choice(["item_slice", "item_list", "set_data"]))
    for _ in range(20):
        idx, pat = S.index(m.shape, {"item_slice": "slice_noneg", "item_list": "list_unique", "set_data": "data_multi"}[via])
        _, pos = m._address(idx, neg_ok=True, exact=True)
        targets = list(itertools.product(*pos))
        if len(targets) >= 2:
            break
    else:
        return _op_invalid_set(S)
    S.extra = dict(_pattern_fields(pat, m.ndim), variant=via)
    nbad = int(rng.integers(1, len(targets)))  # position of the first invalid entry (>= 1 valid entries before it)
    bad_kind = str(rng.choice(["cols", "1d", "type"]))
    vals = []
    for t, ix in enumerate(targets):
        cur_rows = None if m.cells[ix] is None else m.cells[ix].shape[0]
        if t < nbad or rng.random() < 0.5:
            rows = int(rng.integers(0, 6))
            if rows == cur_rows:
                rows += 1
            vals.append(_rand_cell(rng, m.nf, S.kind, rows=rows))
        else:
            vals.append(None)
    for t in range(len(targets)):
        if vals[t] is None or t == nbad:
            vals[t] = _rand_cell(rng, m.nf + 1, S.kind, rows=2) if bad_kind == "cols" else (np.zeros(m.nf) if bad_kind == "1d" else [[0.0] * m.nf])
    given = [v.copy() if isinstance(v, np.ndarray) else list(v) for v in vals]
    total_before = sum(m.cells[ix].shape[0] for ix in m.populated())
    what = "%s with %d valid arrays followed by an invalid one (%s), block %s on shape %r" % (via, nbad, bad_kind, _fmt_idx(idx), m.shape)
    k = S.key(idx)
    w = ArgWatch(S, given, "value list of a failing block assignment")
    _, exc = S.call((lambda: r.set_data(given, *idx)) if via == "set_data" else (lambda: r.__setitem__(k, given)))
    S.expect_raise(exc, what)
    w.verify()
    # read the addressed cells back (cell reads only) and adopt them
    for t, ix in enumerate(targets):
        c, e2 = S.call(lambda: r.get_data(*ix) if rng.random() < 0.5 else r[ix if len(ix) > 1 else ix[0]])
        if not S.expect_ok(e2, "reading cell %r back" % (ix,)):
            continue
        old = m.cells[ix]
        offered = vals[t] if (isinstance(vals[t], np.ndarray) and m.valid_cell(vals[t])) else None
        ok = _same(c, old) or (offered is not None and _same(c, offered))
        S.ctx.check(ok, "partial_failure_state", lambda: "after the failed assignment cell %r holds %s: neither its old value %s nor the array offered for it %s" % (ix, _brief(c), _brief(old), _brief(offered)), **S.fields())
        if ok:
            m.cells[ix] = None if c is None else np.array(c, copy=True)
    S.ctx.count("partial_failures_cells_kept" if any(m.cells[ix] is not None and isinstance(vals[t], np.ndarray) and _same(m.cells[ix], vals[t]) for t, ix in enumerate(targets)) else "partial_failures_nothing_kept")
    follow = int(rng.integers(5))
    S.extra = dict(S.extra, follow=["none", "roundtrip", "roundtrip", "arithmetic", "wrong_length"][follow])
    name = _pick_field(S)
    total = sum(m.cells[ix].shape[0] for ix in m.populated())
    if follow in (1, 2):
        _roundtrip(S, S.cur, name, follow - 1)
    elif follow == 3:
        op, other = _rand_iop(S)
        S.mutate(lambda rr: _iop_stmt(rr, name, op, other), lambda mm: mm.field_iop(name, op, other), "v[%r] %s %r after a failed block assignment" % (name, op, other))
    elif follow == 4:
        n = total_before if total_before != total else total + 1
        vals2 = np.zeros(n)
        S.mutate(lambda rr: rr[name].set_flattened(vals2), lambda mm: mm.set_flattened(name, vals2), "set_flattened(%d values) for %d rows after a failed block assignment" % (n, total))
    return True


def _op_shared_argument(S):
    """the same data list object is handed to two constructions (from_data twice, or from_data and the data setter of
    another vector); the two vectors must be independent.  With nested-list cells the library builds the arrays itself, so
    nothing at all may be shared and both vectors join the live set (whole-cell and in-place operations on one, the other
    is a bystander).  With array cells the caller's arrays are stored by reference in both (the caller's choice), so only
    the container is judged: a whole-cell assignment on one must not show in the other."""
    from vf.refmodels.vector_model import VecModel

    rng, V = S.rng, S.V
    n = int(rng.integers(2, 5))
    nf = int(rng.integers(1, 4))
    nested = rng.random() < 0.6
    cells = [_rand_cell(rng, nf, S.kind, rows=int(rng.integers(1, 4))) for _ in range(n)]
    data = [c.tolist() for c in cells] if nested else [c.copy() for c in cells]
    fields = [str(x) for x in rng.permutation(POOL)[:nf]]
    second = str(rng.choice(["from_data", "data_setter"]))
    S.extra = {"variant": ("nested_" if nested else "arrays_") + second}
    w = ArgWatch(S, data, "data list shared by two constructions")
    a, exc = S.call(lambda: V.from_data(data, fields=list(fields)))
    if not S.expect_ok(exc, "from_data"):
        return True
    w.verify()
    if second == "from_data":
        b, exc = S.call(lambda: V.from_data(data, fields=list(fields)))
    else:
        b, exc = S.call(lambda: V.from_shape((n,), fields=list(fields)))
        if exc is None:
            _, exc = S.call(lambda: setattr(b, "data", data))
    if not S.expect_ok(exc, second + " with the list already used for another vector"):
        return True
    w.verify()
    pristine = [np.array(c.tolist()) if nested else c for c in cells]
    ma, mb = VecModel.from_data(pristine, fields=fields), VecModel.from_data(pristine, fields=fields)
    i = int(rng.integers(n))
    newcell = _rand_cell(rng, nf, S.kind, rows=int(cells[i].shape[0]) + 1)
    if nested:
        S.live.append([a, ma])
        S.live.append([b, mb])
        S.cur = len(S.live) - (1 if rng.random() < 0.5 else 2)
        # one whole-cell and one in-place operation on one of the two; the other one is compared as a bystander
        S.mutate(lambda r: r.__setitem__(i, newcell.copy()), lambda mm: mm.setitem((i,), newcell), "v[%d] = array on one of two vectors built from the same list" % i)
        op, other = _rand_iop(S)
        name = fields[int(rng.integers(nf))]
        S.mutate(lambda r: _iop_stmt(r, name, op, other), lambda mm: mm.field_iop(name, op, other), "v[%r] %s %r on one of two vectors built from the same list" % (name, op, other))
        w.scribble(deep=True)
        return True
    # array cells: container only
    _, exc = S.call(lambda: a.__setitem__(i, newcell.copy()))
    if S.expect_ok(exc, "v[%d] = array" % i):
        got, e2 = S.call(lambda: b.get_data(i))
        if S.expect_ok(e2, "get_data(%d)" % i):
            S.ctx.check(_same(got, cells[i]), "bystander_changed", lambda: "a whole-cell assignment on one vector changed cell %d of another vector built from the same data list: %s" % (i, _brief(got)), **S.fields())
        ma.setitem((i,), newcell)
    w.scribble()
    # the vector assigned to stays in the history (its cells are arrays nobody else keeps using); the other one is dropped
    ok = S.compare_result(a, ma, "vector built from a reused data list")
    if ok:
        S.live.append([a, ma])
    return True


DISPATCH = {
    "partial_block_failure": _op_partial_block_failure,
    "shared_argument": _op_shared_argument,
    "schema_churn": _op_schema_churn,
    "flatten_modify_restore": _op_flatten_modify_restore,
    "set_cell_item": lambda S: _op_set_cell(S, "item"),
    "set_cell_data": lambda S: _op_set_cell(S, "data"),
    "get_cell": _op_get_cell,
    "get_slice": lambda S: _op_get_block(S, "slice"),
    "get_short": lambda S: _op_get_block(S, "short"),
    "get_list": lambda S: _op_get_block(S, "list"),
    "get_data_fancy": _op_get_data_fancy,
    "set_slice_list": lambda S: _op_set_block_list(S, "slice_noneg", "item"),
    "set_slice_vector": _op_set_slice_vector,
    "set_list_list": lambda S: _op_set_block_list(S, "list_unique", "item"),
    "set_data_fancy": lambda S: _op_set_block_list(S, "data_multi", "data"),
    "set_short": _op_set_short,
    "flatten": _op_flatten,
    "field_flatten": _op_field_flatten,
    "field_roundtrip": _op_field_roundtrip,
    "field_set_flat": lambda S: _op_field_set(S, "set_flattened"),
    "field_assign": lambda S: _op_field_set(S, "assign"),
    "field_getitem": _op_field_getitem,
    "add_field_str": lambda S: _op_add_fields(S, "str"),
    "add_fields_list": lambda S: _op_add_fields(S, "list"),
    "remove_field_str": lambda S: _op_remove_fields(S, "str"),
    "remove_fields_list": lambda S: _op_remove_fields(S, "list"),
    "copy": _op_copy,
    "new_vector": _op_new_vector,
    "metadata_write": _op_metadata,
    "invalid_set": _op_invalid_set,
    "invalid_fields": _op_invalid_fields,
    "invalid_index": _op_invalid_index,
}
for _o in IOPS:
    DISPATCH[_o] = (lambda o: (lambda S: _op_iop(S, o)))(_o)


# ------------------------------------------------------------------------------------------------


def run_case(spec, idx, ctx):
    if spec.get("np_state"):
        # process-global NumPy state a user may have set; the workload of these histories raises no floating-point flag
        # (small integers and integer-closed arithmetic), so the result must be what it is in the default state
        with np.errstate(all="raise"), np.printoptions(precision=1, threshold=3, edgeitems=1, suppress=True, linewidth=20):
            _run_case(spec, idx, ctx)
        return
    with np.errstate(all="ignore"):
        _run_case(spec, idx, ctx)


def _run_case(spec, idx, ctx):
    rng = ctx.rng(idx)
    nd = int(spec["ndim"])
    S = Sess(ctx, rng, nd)
    S.sparse = spec.get("obs") == "sparse"
    ctx.state["sess"] = S
    ctx.state["quiet"] = 1 if S.sparse else 0  # sparse: the invariant wrappers do not read the vectors either
    try:
        S.kind = str(rng.choice(["float", "float", "float", "float", "int", "int", "mixed", "mixed"]))
        if spec.get("np_state"):
            S.kind = "mixed"
        shape = _rand_shape(rng, nd)
        nf = int(rng.integers(1, 5)) if rng.random() < 0.85 else int(rng.integers(9, 17))  # some wide peak-table-like vectors
        if spec["kind"] == "big":
            shape, nf = tuple(spec["shape"]), int(spec["nf"])
            if spec.get("long_rows") and S.kind == "mixed":
                S.kind = "float"
        pair = S.new_vector(shape, nf, fill=spec.get("fill"), long_rows=spec.get("long_rows"))
        if pair is None:
            ctx.nontrivial((nd, "construction-failed"), False)
            return
        S.live.append(pair)
        if not S.sparse:
            S.post_step(True)
        if spec["kind"] == "exh":
            ops = list(spec["ops"])
        elif spec["kind"] == "big":
            ops = [_BIG_OPS[int(i)] for i in rng.integers(len(_BIG_OPS), size=int(spec["depth"]))]
        else:
            ops = [ALPHABET[int(i)] for i in rng.integers(len(ALPHABET), size=int(spec["depth"]))]
        for name in ops:
            if S.abort:
                break
            if spec["kind"] == "rand" and len(S.live) > 1 and rng.random() < 0.25:
                S.cur = int(rng.integers(len(S.live)))
            if spec.get("neutral") and rng.random() < 0.35:
                S.neutral()
            S.op, S.extra = name, {}
            mutated = DISPATCH[name](S)
            S.done_ops.append(name)
            ctx.count("op:" + name)
            if S.sparse:
                S.check_held()  # harness-held arrays only; no live vector is read
                S.note_model()
            else:
                S.post_step(bool(mutated))
        ctx.state["quiet"] = 0
        if S.sparse:
            # the one full comparison of a sparsely observed history
            S.op, S.extra = "end_of_history", {"last_op": S.done_ops[-1] if S.done_ops else ""}
            S.post_step(True)
            ctx.count("sparse_histories")
        # closing law: writing every field's flattened view back restores the same data
        S.op, S.extra = "final_roundtrip", {}
        if not S.abort:
            for j, (r, m) in enumerate(S.live):
                S.cur = j
                for name in list(m.fields):
                    _roundtrip(S, j, name, 0)
                S.post_step(True)
        schema = any(o in SCHEMA_OPS for o in S.done_ops)
        block = any(o in SLICE_OPS for o in S.done_ops)
        ctx.nontrivial("%d|%s|%s" % (nd, "s" if S.sparse else "d", ">".join(S.done_ops)), S.ragged and (schema or block))
        m0 = S.live[0][1]
        if spec["kind"] == "big":
            ctx.observe(big=spec["name"], cells=int(np.prod(shape)), fields=nf, max_rows=max([0] + [int(mm.cells[ix].shape[0]) for _, mm in S.live[:1] for ix in mm.populated()]))
        ctx.observe(ndim=nd, shape=list(shape), observation="sparse" if S.sparse else "dense", cell_kind=S.kind, ops=S.done_ops, live_vectors=len(S.live), final_fields=m0.fields, final_rows=[None if m0.cells[ix] is None else int(m0.cells[ix].shape[0]) for ix in m0.order()][:24], aborted=S.abort)
    finally:
        ctx.state["sess"] = None
        ctx.state["quiet"] = 0


def summarize(all_cases, counters, extras):
    ops = {k[3:]: v for k, v in counters.items() if k.startswith("op:")}
    return {
        "operations_executed": dict(sorted(ops.items())),
        "operations_never_executed": sorted(set(ALPHABET) - set(ops)),
        "short_assignments_rejected": counters.get("short_assignment_rejected", 0),
        "sparsely_observed_histories": counters.get("sparse_histories", 0),
        "returned_arrays_watched": counters.get("eval:returned_value_changed", 0),
        "arguments_checked_unchanged": counters.get("eval:argument_modified", 0),
        "neutral_calls_between_steps": counters.get("neutral_calls", 0),
        "size_threshold_cases": sorted(set(c["obs"].get("big") for c in all_cases if c["obs"].get("big"))),
        "arguments_scribbled_after_the_call": counters.get("arguments_scribbled", 0),
        "failed_block_assignments_that_kept_some_cells": counters.get("partial_failures_cells_kept", 0),
        "failed_block_assignments_that_kept_nothing": counters.get("partial_failures_nothing_kept", 0),
        "tolerance": "exact (0); noise floor 0 by construction (model and library apply identical IEEE operations)",
    }
