"""C02 — the library's forward pipeline reproduces independently simulated data.

Oracle: data simulated by vf.refmodels.multislice_ref (float64, shares no code with quantem) from a
unit-amplitude truth; the library runs its own preprocessing and pipeline; the loss at the truth must be
~0, strictly below the loss at a perturbed object/probe, and the truth must be a stationary point.
"""
from __future__ import annotations

import numpy as np

PROPERTY = "C02"
LEVEL = "exploration"
ANCHOR_FILES = [
    "quantem/diffractive_imaging/dataset_models.py", "quantem/diffractive_imaging/object_models.py", "quantem/diffractive_imaging/probe_models.py",
    "quantem/diffractive_imaging/detector_models.py", "quantem/diffractive_imaging/ptychography_base.py", "quantem/diffractive_imaging/ptychography.py",
    "quantem/diffractive_imaging/ptycho_utils.py",
]
RULE = (
    "seeded random scenes (object type x 1-4 slices x 1-3 modes x odd/even/non-square ROI x fractional raster scan x padding x loss type x batch size) "
    "simulated by an independent float64 multislice simulator; kinds: no_shift general, no_shift with detector mask, no_shift with non-orthogonal modes and "
    "orthogonalisation off, no_shift through the learned-descan target path (dataset optimiser, lr 0), constant descan on integer-centre symmetric scenes with and "
    "without an integer detector roll; 2 cases in 5 share their process with another, unrelated Ptychography object that gets non-default object/probe/dataset "
    "constraints through every public route, other optimizers and short reconstructions with and without reset - before the scene under test is built, "
    "after it is built but before it is judged, or built before and used after; non-trivial = object phase std >= 0.1 rad, >= 2 fractional scan positions, loss(perturbed) >= 1e-4; "
    "distinct = (kind, type, slices, modes, roi parity/squareness, batch class)"
)
ASSUMPTIONS = [
    "bright-field disc contained in the detector (radius <= ROI/3.2); scan positions keep 2e-3 px clear of .5 rounding ties; fov/sampling clear of integers (floor)",
    "constant descan judged only on scenes whose mean centre of mass is an integer to 2e-6 px (measured by the harness on its own data); otherwise the library resamples the data and zero loss is not implied",
    "thresholds: loss(truth) <= r * loss(perturbed) with r = 1e-6 (l2) / 1e-3 (l1: float32 rounding of 1e4 pixels of ~1e4 counts); gradient ratio 3e-3 (no_shift) / 1e-2 (constant)",
    "absorbing objects and plane/parabola descan fits are outside the claim (property text)",
    "the other ('foreign') Ptychography object of a case only uses public routes on itself (constraints, optimizers, reconstruct, reset); its steps may raise (caught, counted as foreign_raised:*) and its results are not judged; the scene under test always keeps the library's default constraints",
]
BUDGET = {"quick": {"soft_s": 300, "workers": 14}, "thorough": {"soft_s": 1200, "workers": 14}}
MIN_EVALUATIONS = {"quick": 30, "thorough": 300}
REQUIRED_COUNTERS = ["eval:loss_at_truth_nonzero", "eval:truth_not_stationary"]

KINDS = ["general", "general", "ties", "mask", "nonorth", "dataset_opt", "constant", "constant_roll", "general"]
BIGSCAN_EVERY = 29  # one scene in 29 has > 1000 scan positions (not a multiple of 1000): the patch indices are built in chunks of 1000
LOSSES = ["l2_amplitude", "l1_amplitude", "l2_intensity", "l1_intensity"]
RATIO = {"l2_amplitude": 1e-6, "l2_intensity": 1e-6, "l1_amplitude": 1e-3, "l1_intensity": 1e-3}


def plan(tier, seed):
    n = 64 if tier == "quick" else 1600
    return [{"kind": KINDS[i % len(KINDS)], "i": i} for i in range(n)]


def setup(ctx):
    import warnings

    warnings.filterwarnings("ignore")
    from vf import scenes

    ctx.state["scenes"] = scenes


def _harness_com(I):
    kr = np.arange(I.shape[2])[:, None]
    kc = np.arange(I.shape[3])[None, :]
    tot = I.sum((2, 3))
    return (I * kr).sum((2, 3)) / tot, (I * kc).sum((2, 3)) / tot


def _perturb_obj(rng, sc):
    noise = 0.05 * rng.normal(size=sc.obj.shape) + 0.05 * np.stack([ctx_smooth(rng, sc.obj.shape[1:]) for _ in range(sc.obj.shape[0])])
    if sc.obj_type == "potential":
        return np.clip(sc.obj + noise, 0, None)
    return sc.obj * np.exp(1j * noise)


def ctx_smooth(rng, shape):
    from vf.scenes import smooth_field

    return smooth_field(rng, shape, corr=2.0)


def _perturb_probe(rng, sc):
    h, w = sc.roi
    kr = np.fft.fftfreq(h)[:, None]
    kc = np.fft.fftfreq(w)[None, :]
    k2 = (kr**2 + kc**2) / 0.25
    ph = 1.2 * k2 + 0.5 * (kr - kc) / 0.5
    far = np.fft.fft2(sc.probes, norm="ortho") * np.exp(1j * ph)[None]
    return np.fft.ifft2(far, norm="ortho")


# ---- another Ptychography object of the same process ("foreign"): built and used before / between / after the construction of the
# scene under test.  Nothing it does may change what the scene under test computes; its own results are not judged. -----------------
FOREIGN_OBJECT = {"identical_slices": True, "gaussian_sigma": [0.7, 1.5], "q_lowpass": [0.3, 0.8], "q_highpass": [0.02, 0.08], "butterworth_order": [2, 6],
                  "apply_fov_mask": True, "positivity": False, "fix_potential_baseline": True, "fix_potential_baseline_factor": [0.5, 2.0],
                  "tv_weight_z": [0.01, 0.3], "tv_weight_xy": [0.01, 0.3], "surface_zero_weight": [0.01, 0.3]}
FOREIGN_PROBE = {"orthogonalize_probe": False, "center_probe": True, "tv_weight": [0.01, 0.3]}
# (clip_scan_positions=False is left out: on the unchanged tree dset.forward then raises KeyError - see the comment on clipping below)
FOREIGN_DATASET = {"descan_tv_weight": [0.01, 0.3], "descan_shifts_constant": True, "center_scan_positions": True}


def _draw_constraints(rng, table, kmin=1):
    keys = list(table)
    n = int(rng.integers(kmin, min(len(keys), 4) + 1))
    out = {}
    for k in rng.choice(len(keys), size=n, replace=False):
        v = table[keys[int(k)]]
        out[keys[int(k)]] = float(rng.uniform(*v)) if isinstance(v, list) and isinstance(v[0], float) else (int(rng.integers(v[0], v[1] + 1)) if isinstance(v, list) else v)
    return out


class _Foreign:
    """build(): a small unrelated scene through the library's construction path (other object type / slices / modes / probe parameters /
    descan fit); use(): non-default object, probe and dataset constraints through every public route (model setter, model add_constraint,
    Ptychography.constraints setter, reconstruct(constraints=...) with and without reset=True), other optimizers / schedulers / loss /
    batch size, short reconstructions, resets.  Every step is allowed to raise (caught, counted): the object is only there to have been used."""

    def __init__(self, rng, ctx, scenes):
        self.rng, self.ctx, self.scenes, self.pt = rng, ctx, scenes, None

    def _step(self, name, fn):
        import contextlib, io

        try:
            with contextlib.redirect_stdout(io.StringIO()):
                fn()
            self.ctx.count("foreign:" + name)
        except Exception as e:  # noqa: BLE001
            self.ctx.count("foreign_raised:%s:%s" % (name, type(e).__name__))

    def build(self):
        rng, scenes = self.rng, self.scenes
        sc = scenes.make_scene(rng, gpts=(int(rng.integers(3, 5)), int(rng.integers(3, 5))), roi=(int(rng.integers(8, 13)), int(rng.integers(8, 13))),
                               num_slices=int(rng.integers(1, 4)), num_modes=int(rng.integers(1, 4)), pad_req=(int(rng.integers(2, 7)), int(rng.integers(2, 7))))
        I = scenes.simulate_scene(sc)
        kw = dict(com_fit=str(rng.choice(["no_shift", "constant", "plane"])), install_truth=bool(rng.random() < 0.5), obj_init=None if rng.random() < 0.5 else "uniform",
                  learn_descan=bool(rng.random() < 0.5), learn_scan_positions=bool(rng.random() < 0.3), orthogonalize=bool(rng.random() < 0.7),
                  probe_from="array" if rng.random() < 0.5 else "params", seed=int(rng.integers(1 << 30)))
        self.J = int(np.prod(sc.gpts))
        self.learnable_dataset = kw["learn_descan"] or kw["learn_scan_positions"]  # (a dataset optimizer without learnable parameters is rejected, loudly)

        def _b():
            self.pt = scenes.build_library(sc, I, **kw)

        self._step("build", _b)
        return self

    def use(self):
        rng, pt = self.rng, self.pt
        if pt is None:
            return self
        J = self.J

        def opt():
            o = {}
            for key, lr in (("object", 10 ** rng.uniform(-4, -1)), ("probe", 10 ** rng.uniform(-5, -2)), ("dataset", 10 ** rng.uniform(-3, 0))):
                if key == "object" or (rng.random() < 0.5 and (key != "dataset" or self.learnable_dataset)):
                    o[key] = {"type": str(rng.choice(["adam", "adamw", "sgd"])), "lr": float(lr)}
            return o

        def sched():
            return None if rng.random() < 0.5 else {"object": [{"type": "exp", "factor": 0.5}, {"type": "plateau", "factor": 0.5}, {"type": "cyclic"}, {"type": "linear"}][int(rng.integers(4))]}

        def recon(reset, with_constraints):
            c = {}
            if with_constraints:
                c = {"object": _draw_constraints(rng, FOREIGN_OBJECT, 2)}
                if rng.random() < 0.6:
                    c["probe"] = _draw_constraints(rng, FOREIGN_PROBE)
                if rng.random() < 0.6:
                    c["dataset"] = _draw_constraints(rng, FOREIGN_DATASET)
            kws = dict(num_iters=int(rng.integers(1, 3)), reset=reset, constraints=c, optimizer_params=opt(), scheduler_params=sched(),
                       batch_size=int(rng.integers(1, J + 1)), loss_type=str(rng.choice(LOSSES + ["poisson"])))
            return lambda: pt.reconstruct(**kws)

        oc1, oc2, oc3 = (_draw_constraints(rng, FOREIGN_OBJECT, 2) for _ in range(3))
        pc1, pc2 = _draw_constraints(rng, FOREIGN_PROBE), _draw_constraints(rng, FOREIGN_PROBE)
        dc1, dc2 = _draw_constraints(rng, FOREIGN_DATASET), _draw_constraints(rng, FOREIGN_DATASET)

        def model_setters():
            pt.obj_model.constraints = oc1
            pt.probe_model.constraints = pc1
            pt.dset.constraints = dc1

        def add_constraints():
            for m, c in ((pt.obj_model, oc2), (pt.probe_model, pc2), (pt.dset, dc2)):
                for k, v in c.items():
                    m.add_constraint(k, v)

        def top_setter():
            pt.constraints = {"object": oc3, "probe": dict(pc1), "dataset": dict(dc2)}

        def reads():
            _ = (pt.constraints, pt.obj_model.obj.shape, pt.probe_model.probe.shape, pt.obj_model.constraints, pt.obj_model.DEFAULT_CONSTRAINTS)

        steps = [("model_constraints_setter", model_setters), ("add_constraint", add_constraints), ("ptychography_constraints_setter", top_setter),
                 ("reconstruct_reset_constraints", recon(True, True)), ("reconstruct_constraints", recon(False, True)), ("reconstruct_reset", recon(True, False)),
                 ("reset_recon", pt.reset_recon), ("reads", reads)]
        order = [int(i) for i in rng.permutation(len(steps))]
        # (every session contains reconstruct(reset=True, constraints=...) followed by further routes on the reset object, and the same routes before it)
        tail = [int(i) for i in rng.permutation(3)] + [7]
        for i in order + tail:
            self._step(*steps[i])
        return self


def run_case(spec, idx, ctx):
    """Process-global state a user may have set must not change the claim: one case in 7 runs under another default dtype,
    deterministic algorithms or another thread count (restored afterwards)."""
    import torch

    gs = [None, "default_float64", "deterministic_algorithms", "two_threads"][(idx // 7) % 4] if idx % 7 == 5 else None
    if gs is None:
        return _run_case(spec, idx, ctx)
    old = (torch.get_default_dtype(), torch.are_deterministic_algorithms_enabled(), torch.get_num_threads())
    try:
        if gs == "default_float64":
            torch.set_default_dtype(torch.float64)
        elif gs == "deterministic_algorithms":
            torch.use_deterministic_algorithms(True)
        else:
            torch.set_num_threads(2)
        ctx.count("global_state:" + gs)
        return _run_case(spec, idx, ctx, global_state=gs)
    finally:
        torch.set_default_dtype(old[0])
        torch.use_deterministic_algorithms(old[1])
        torch.set_num_threads(old[2])


def _run_case(spec, idx, ctx, global_state=None):
    import dataclasses

    import torch

    scenes = ctx.state["scenes"]
    rng = ctx.rng(idx)
    kind = spec["kind"]
    common = {"kind": kind}
    if global_state:
        common["global_state"] = global_state
    kw = {}
    build = {}
    roll = (0, 0)
    if kind in ("constant", "constant_roll"):
        roi = (int(rng.integers(14, 25)), int(rng.integers(14, 25)))
        kw = dict(roi=roi, integer_centre=True, periodic_symmetric=True, pad_req=(roi[0] // 2 + 2, roi[1] // 2 + 2), phase_std=float(rng.uniform(0.1, 0.35)))
        build["com_fit"] = "constant"
    elif kind == "ties":
        # scan positions exactly on half-integer object pixels (both parities of the integer part): calibration chosen from powers of
        # two so that the library's float32 arithmetic and the harness' float64 arithmetic give the same exact positions
        roi = [(16, 16), (16, 32), (32, 16)][int(rng.integers(3))]
        kw = dict(roi=roi, samp=(float(rng.choice([0.25, 0.5])), float(rng.choice([0.25, 0.5]))), gaussian_probe=True,
                  step_px=(float(rng.choice([0.5, 1.5, 2.5, 1.0])), float(rng.choice([0.5, 1.5, 2.5]))), pad_req=(int(rng.integers(2, 9)), int(rng.integers(2, 9))))
        build["com_fit"] = "no_shift"
    elif idx % BIGSCAN_EVERY == 7:
        kind = "bigscan"
        common["kind"] = kind
        kw = dict(gpts=[(23, 45), (26, 40), (7, 149), (143, 7)][(idx // BIGSCAN_EVERY) % 4], roi=(int(rng.integers(8, 11)), int(rng.integers(8, 11))), num_slices=1, num_modes=int(rng.integers(1, 3)),
                  pad_req=(int(rng.integers(2, 9)), int(rng.integers(2, 9))))
        build["com_fit"] = "no_shift"
    else:
        build["com_fit"] = "no_shift"
        if rng.random() < 0.15:
            kw["gpts"] = (1, int(rng.integers(3, 8))) if rng.random() < 0.5 else (int(rng.integers(3, 8)), 1)
        if rng.random() < 0.25:
            kw["num_slices"] = 4
    if kind == "nonorth":
        kw["orthogonal"] = False
        kw["num_modes"] = int(rng.integers(2, 4))
        build["orthogonalize"] = False
    if kind == "dataset_opt":
        build["learn_descan"] = True
    if idx % 5 == 2:
        # history: the dataset was preprocessed before with another descan fit, and Ptychography.preprocess is called twice
        build["dset_pre"] = [["constant"], ["plane"], ["constant", "no_shift"]][(idx // 5) % 3]
        build["pt_twice"] = bool((idx // 5) % 2)
        if idx % 2 == 0:
            build["learn_scan_positions"] = True  # (only used by the reset copy of the clone history below: no dataset optimizer is installed on the judged object)
    if idx % 3 == 2:
        build["probe_order"] = "permute"  # resolved once the number of modes is known
    if idx % 7 == 4:
        build["array_form"] = ["f32", "c64", "ro32", "strided"][(idx // 7) % 4]  # memory layout / dtype / ownership of the measured data
    if idx % 2 == 0 and kind != "nonorth":
        build["probe_from"] = "array"  # equivalent construction form: ProbePixelated.from_array instead of from_params + setter
    if kind.startswith("constant") and (idx // 9) % 2 == 0:
        build["learn_descan"] = True  # descan learnable: the library switches between descan-corrected and raw targets with the dataset optimizer
    if idx % 8 == 3 and kind not in ("dataset_opt",):
        build["dataset_file"] = "reload"
    if idx % 3 == 1 and kind != "ties" and not build.get("dataset_file"):
        # (not combined with the reload-from-file history: on the unchanged tree the automatic dataset reload does not pass the probe
        # energy to preprocess(), so an mrad-calibrated file cannot be reloaded at all - loud, outside this property; DESIGN 8.3b)
        build["detector_units"] = "mrad"  # same calibration given as scattering angles (converted with the probe energy by the library)
    sc = scenes.make_scene(rng, **kw)
    if spec.get("_lib_shape"):
        # the library derived another object canvas than the harness rule predicts: follow it (the canvas rule is not part of
        # the property); same rng stream, so the scene is otherwise the one that was drawn before
        sc = scenes.make_scene(ctx.rng(idx), lib_shape=spec["_lib_shape"], lib_pad=spec["_lib_pad"], **kw)
        rng = ctx.rng(idx, 1)
    I = scenes.simulate_scene(sc)
    if kind == "constant_roll":
        a, b = 0, 0
        while a == b or (a == 0 and b == 0):
            a, b = int(rng.integers(-3, 4)), int(rng.integers(-3, 4))
        roll = (a, b)
        I = np.roll(I, roll, axis=(2, 3))
    if kind.startswith("constant"):
        cr, cc = _harness_com(I)
        dev = max(abs(cr.mean() - sc.roi[0] // 2 - roll[0]), abs(cc.mean() - sc.roi[1] // 2 - roll[1]))
        ctx.count("constant_scenes_generated")
        if dev > 2e-6:
            ctx.count("constant_premise_not_met")
            ctx.observe(skipped="mean centre of mass not an integer", dev=float(dev))
            return
    # The library clips scan positions to [0, canvas-1] by default (dataset constraint clip_scan_positions).  With an
    # effective padding < 2 px its own canvas (floor(fov/sampling) made even + 2*pad) can be smaller than the scan extent, so
    # the last scan row/column is silently moved (known finding, see DESIGN C02; the clip cannot be switched off through the
    # constraints dict either: clip_scan_positions=False makes dset.forward raise KeyError).  1 in 4 such scenes is kept to
    # re-observe the finding; the others are re-drawn with a requested padding >= 2 px, where the canvas contains the scan.
    def _would_clip(scene):
        return bool(np.any(scene.positions_px > np.array(scene.obj_shape[1:]) - 1 + 1e-6))

    clip = "none"
    if _would_clip(sc) and not spec.get("_lib_shape"):
        if idx % 4 == 3:
            clip = "on"
        else:
            kw2 = dict(kw, pad_req=tuple(max(2, int(p)) for p in sc.pad_req))
            sc = scenes.make_scene(ctx.rng(idx, 2), **kw2)
            kw = kw2
            clip = "on" if _would_clip(sc) else "none"
            I = scenes.simulate_scene(sc)
            if kind == "constant_roll":
                I = np.roll(I, roll, axis=(2, 3))
    elif _would_clip(sc):
        clip = "on"
    common["positions_clipped"] = clip == "on"
    ctx.count("scenes_clip_" + clip)
    mask = None
    if kind == "mask":
        mask = (rng.random(sc.roi) > 0.3).astype(np.float32)
    key = "dataset" if kind == "dataset_opt" else "object"

    if build.get("probe_order") == "permute":
        # install the incoherent modes in a random (generally non-descending) order; kept off where the orthogonalisation is switched off
        build["probe_order"] = [int(i) for i in rng.permutation(sc.num_probes)] if sc.num_probes > 1 and kind != "nonorth" else None
    if build.get("dataset_file") == "reload":
        import os

        build["dataset_file"] = os.path.join(ctx.tmp, "c02-raw-%d.zip" % idx)

    def build_lib(scene):
        return scenes.build_library(scene, I, detector_mask=mask, seed=int(rng.integers(1 << 30)), **build)

    # another Ptychography object in the same process: built and used before the scene under test exists ("before"), after the objects
    # under test were built but before they are judged ("after_build"), or built before and used after ("interleaved")
    fmode = {0: "before", 3: ("after_build", "interleaved")[(idx // 5) % 2]}.get(idx % 5)
    foreign = None
    if fmode:
        common["foreign_object"] = fmode
        ctx.count("foreign_object:" + fmode)
        foreign = _Foreign(ctx.rng(idx, 7), ctx, scenes)
        if fmode in ("before", "interleaved"):
            foreign.build()
        if fmode == "before":
            foreign.use()
            if (idx // 10) % 2:
                foreign = None  # (otherwise it stays alive while the scene under test is judged)
    pt = build_lib(sc)
    if idx % 6 == 1:
        # calls that are neutral for the forward pipeline, between construction and use
        import contextlib, io, os

        with contextlib.redirect_stdout(io.StringIO()):
            pt.to("cpu")
            repr(pt)
            _ = (pt.obj_shape_full, pt.dset.num_gpts, pt.probe_model.probe.shape, pt.obj_model.obj.shape)
            pt.save(os.path.join(ctx.tmp, "c02-neutral-%d.zip" % idx), mode="o")
        ctx.count("neutral_calls_before_use")
    if build.get("dset_pre"):
        # state after an error: calls that raise (caught by the caller) must not change what the pipeline computes afterwards
        for bad in (dict(loss_type="no_such_loss"), dict(batch_size=0), dict(constraints={"no_such_model": {}})):
            # (a rejected optimizer type is not used here: on the unchanged tree it stays stored in the model and every later
            # reconstruct() raises until valid parameters are passed - loud, and outside this property)
            try:
                pt.reconstruct(num_iters=1, **bad)
                ctx.count("bad_reconstruct_call_accepted")
            except Exception:  # noqa: BLE001
                ctx.count("bad_reconstruct_call_raised")
    # ---- cross-oracles on the library's preprocessing ------------------------------------------------
    lib_shape = tuple(int(x) for x in pt.obj_shape_full)
    if lib_shape != tuple(sc.obj_shape):
        # the library derived another canvas: follow it (geometry rule is not part of the property) and rebuild
        from vf.core import HarnessError

        if spec.get("_lib_shape"):
            raise HarnessError("object canvas %s != harness %s even after following the library" % (lib_shape, sc.obj_shape))
        ctx.count("geometry_fallback")
        return _run_case(dict(spec, _lib_shape=list(lib_shape), _lib_pad=[int(p) for p in pt.obj_padding_px]), idx, ctx, global_state=global_state)
    pt.dset.forward(np.arange(int(np.prod(sc.gpts))), pt.obj_padding_px)  # applies the dataset's hard constraints, as every iteration does
    pos = pt.dset.scan_positions_px.detach().cpu().numpy().astype(np.float64)
    ctx.close(np.abs(pos - sc.positions_px).max(), 2e-4, "scan_positions_mismatch", lambda: "library scan positions differ from index*step/sampling+padding", track="clipped(known finding)" if clip == "on" else None, **common)
    # (the library accumulates the pattern sums in float32: the rounding grows with the number of patterns; a lost pattern gives 1/J)
    ctx.close(abs(float(pt.dset.mean_diffraction_intensity) / I.sum((2, 3)).mean() - 1), 1e-5 * max(1.0, int(np.prod(sc.gpts)) / 50.0), "mean_intensity_mismatch", "mean diffraction intensity", **common)

    # ---- loss at the truth, every loss type, public path + explicit chain ----------------------------
    sc_po = dataclasses.replace(sc, obj=_perturb_obj(rng, sc))
    sc_pp = dataclasses.replace(sc, probes=_perturb_probe(rng, sc))
    pt_po = build_lib(sc_po)
    pt_pp = build_lib(sc_pp)
    if fmode in ("after_build", "interleaved"):
        if fmode == "after_build":
            foreign.build()
        foreign.use()
        if (idx // 10) % 2:
            foreign = None
    J = int(np.prod(sc.gpts))
    bsizes = [J]  # (batch_size=None means "keep the previous batch size" in reconstruct(), so the full batch is passed explicitly)
    if J > 1:
        bsizes += [1] if idx % 3 == 0 else [int(rng.integers(2, J + 1))]
    worst_ratio = 0.0
    minpert = np.inf
    pert_by_loss = {}
    for li, lt in enumerate(LOSSES):
        bs = bsizes[(idx + li) % len(bsizes)]
        if kind == "dataset_opt":
            L0 = scenes.library_loss(pt, lt, batch_size=bs, key=key)
            Lo = scenes.library_loss(pt_po, lt, batch_size=bs, key=key)
            Lp = scenes.library_loss(pt_pp, lt, batch_size=bs, key=key)
            Lc = None
        else:
            L0 = scenes.library_loss(pt, lt, batch_size=bs, key=key)
            Lo = scenes.library_loss(pt_po, lt, batch_size=bs, key=key)
            Lp = scenes.library_loss(pt_pp, lt, batch_size=bs, key=key)
            Lc, _pred = scenes.chain_loss(pt_po, lt)  # explicit chain vs public path, compared where the loss is well above rounding noise
        ref = min(Lo, Lp)
        pert_by_loss[lt] = ref
        minpert = min(minpert, ref)
        r = RATIO[lt] * (100.0 if kind.startswith("constant") else 1.0)
        f = dict(common, loss=lt, batch="full" if bs == J else ("one" if bs == 1 else "partial"))
        ctx.check(np.isfinite(L0) and np.isfinite(ref), "loss_not_finite", "L0=%r Lpert=%r" % (L0, ref), **f)
        ctx.close(L0 / max(ref, 1e-300), r, "loss_at_truth_nonzero", track="%s:%s" % (lt, ("constant" if kind.startswith("constant") else "no_shift") + (":clipped(known finding)" if clip == "on" else "")), detail=lambda: "%s loss(truth)=%.3e loss(perturbed obj)=%.3e loss(perturbed probe)=%.3e scene=%s" % (lt, L0, Lo, Lp, sc.describe()), **f)
        ctx.check(L0 < Lo and L0 < Lp, "truth_not_minimum", lambda: "%s loss(truth)=%.3e not below perturbed (%.3e, %.3e)" % (lt, L0, Lo, Lp), **f)
        worst_ratio = max(worst_ratio, L0 / max(ref, 1e-300))
        if Lc is not None:
            # per-batch losses are divided by the batch fraction and averaged over batches: equal to the full-batch chain when b | J,
            # and a weighted mean otherwise (judged in C09); here only full batch and batch size 1
            if bs == J or bs == 1:
                ctx.close(abs(Lc - Lo) / max(abs(Lo), 1e-30), 1e-4, "chain_vs_public_loss", lambda: "%s explicit chain=%.6e reconstruct()=%.6e (batch %s)" % (lt, Lc, Lo, bs), **f)
    # ---- predicted patterns vs measured, directly ---------------------------------------------------
    if kind != "dataset_opt":
        audit = {}
        _l, pred = scenes.chain_loss(pt, "l2_intensity", audit=audit)
        for name, val in audit.items():
            ctx.close(val, 0.0 if name.endswith("_modified") else 1e-6, name, lambda: "explicit chain at the ground truth: %s = %.3e (stages must not modify their arguments and must be repeatable on the same tensors)" % (name, val), **common)
        meas = pt.dset.centered_intensities.detach().cpu().numpy() if not kind.startswith("constant") else None
        Iflat = I.reshape(-1, *sc.roi)
        if kind.startswith("constant"):
            Iflat = np.roll(Iflat, (-roll[0], -roll[1]), axis=(1, 2))
        ctx.close(np.abs(pred - Iflat).max() / Iflat.max(), 2e-5 if not kind.startswith("constant") else 2e-4, "predicted_pattern_mismatch", lambda: "max |pred - simulated| / max I, scene=%s" % sc.describe(), track="clipped(known finding)" if clip == "on" else None, **common)
        # ---- stationarity: autograd gradient at truth << gradient at the perturbations -----------------
        # (l2 losses only: an l1 loss is not differentiable at its minimum, its gradient there is the sign of rounding noise)
        for lt in ("l2_amplitude", "l2_intensity"):
            _L, _p, go, gp = scenes.chain_loss(pt, lt, with_grad=True)
            _L, _p, go_po, _gp = scenes.chain_loss(pt_po, lt, with_grad=True)
            _L, _p, _go, gp_pp = scenes.chain_loss(pt_pp, lt, with_grad=True)
            ro = float(torch.linalg.vector_norm(go) / torch.linalg.vector_norm(go_po).clamp_min(1e-300))
            rp = float(torch.linalg.vector_norm(gp) / torch.linalg.vector_norm(gp_pp).clamp_min(1e-300))
            gt = 3e-3 if not kind.startswith("constant") else 1e-2  # measured floors over 1600 scenes: 1.8e-4 (no_shift), 7.8e-4 (constant); mutants >= 5e-2
            ctx.close(max(ro, rp), gt, "truth_not_stationary", track="%s:%s" % (lt, ("constant" if kind.startswith("constant") else "no_shift") + (":clipped(known finding)" if clip == "on" else "")), detail=lambda: "%s |grad_obj(truth)|/|grad_obj(pert)|=%.2e |grad_probe(truth)|/|grad_probe(pert)|=%.2e scene=%s" % (lt, ro, rp, sc.describe()), **dict(common, loss=lt))
    # ---- interactions with other public features that share state with the pipeline ----------------------------------------
    rr = RATIO["l2_amplitude"] * (100.0 if kind.startswith("constant") else 1.0)
    if build.get("learn_descan") and clip != "on":
        # history of reconstruct() calls that install, keep, remove and re-install the dataset optimizer (the library compares with
        # descan-corrected patterns without it and with the raw patterns + a learnable descan with it): zero loss at the truth in every call
        sgd0 = {"type": "sgd", "lr": 0.0}
        seq = [("not_mentioned", None), ("installed", sgd0), ("kept", sgd0), ("removed", {"type": "none"}), ("reinstalled", sgd0), ("not_mentioned_again", None)]
        if idx % 2:
            seq = seq[1:]
        for step_i, (tag, dso) in enumerate(seq):
            lt = ("l2_amplitude", "l2_intensity")[(idx + step_i) % 2]
            try:
                Lt = scenes.library_loss_with(pt, lt, J, dso)
                Lq = scenes.library_loss_with(pt_pp, lt, J, dso)
            except Exception as e:  # noqa: BLE001
                from vf.core import exception_origin

                if exception_origin(e)[0] and tag == "removed":
                    ctx.count("dataset_optimizer_none_rejected:%s" % type(e).__name__)
                    break
                raise
            ctx.count("optimizer_transition_steps")
            ctx.close(Lt / max(Lq, 1e-300), rr, "loss_at_truth_nonzero", track="%s:dataset_optimizer_%s" % (lt, tag), detail=lambda: "%s loss(truth)=%.3e loss(perturbed probe)=%.3e in the reconstruct() call where the dataset optimizer is %s (sequence %s)" % (lt, Lt, Lq, tag, [t for t, _ in seq]),
                      **dict(common, loss=lt, batch="full", history="dataset_optimizer_" + tag))
    if build.get("dset_pre") and clip != "on":
        # a clone that is re-preprocessed with another padding must not disturb the object it was cloned from
        try:
            cl = pt.clone()
            other_pad = tuple(int(p) + 8 * int(rng.integers(1, 3)) for p in sc.pad_req)
            import contextlib, io

            with contextlib.redirect_stdout(io.StringIO()):
                cl.preprocess(obj_padding_px=other_pad, com_fit_function=build["com_fit"], force_com_rotation=0, force_com_transpose=False, plot_rotation=False, plot_com=False)
            ctx.count("clone_repreprocessed")
            if idx % 2 == 0:
                # ... nor may a reset copy that refines its own object, probe and dataset parameters
                from quantem.diffractive_imaging.ptychography import Ptychography

                with contextlib.redirect_stdout(io.StringIO()):
                    c2 = Ptychography.from_ptychography(pt)
                    c2.reconstruct(num_iters=2, optimizer_params={"object": {"type": "sgd", "lr": 0.1}, "probe": {"type": "sgd", "lr": 0.1}, "dataset": {"type": "sgd", "lr": 5.0}}, batch_size=max(1, J // 2))
                del c2
                ctx.count("reset_copy_reconstructed")
            del cl
        except Exception as e:  # noqa: BLE001  (a failing clone is C05's business; here only its effect on the original)
            ctx.count("clone_or_repreprocess_raised:%s" % type(e).__name__)
        L0c = scenes.library_loss(pt, "l2_amplitude", batch_size=J, key=key)
        ctx.close(L0c / max(pert_by_loss["l2_amplitude"], 1e-300), rr, "loss_at_truth_nonzero", track="l2_amplitude:after_clone_was_repreprocessed", detail=lambda: "loss(truth) of the original after its clone was preprocessed with padding %r: %.3e" % (other_pad, L0c), **dict(common, loss="l2_amplitude", batch="full", history="clone_repreprocessed"))
    if build.get("dataset_file") and clip != "on":
        # saved without its raw data (the default) and reloaded: the library re-reads the data file and re-applies the stored preprocessing
        import contextlib, io, os

        from quantem.diffractive_imaging.ptychography import Ptychography

        pz = os.path.join(ctx.tmp, "c02-recon-%d.zip" % idx)
        with contextlib.redirect_stdout(io.StringIO()):
            pt.save(pz, mode="o", verbose=0)
            pt2 = Ptychography.from_file(pz, verbose=0)
        ctx.check(getattr(pt2, "_dset", None) is not None, "light_save_reload_has_no_dataset", "from_file() of a raw-data-free save did not re-attach the dataset from its file", **common)
        if getattr(pt2, "_dset", None) is not None:
            L0r = scenes.library_loss(pt2, "l2_amplitude", batch_size=J, key=key)
            ctx.close(L0r / max(pert_by_loss["l2_amplitude"], 1e-300), rr, "loss_at_truth_nonzero", track="l2_amplitude:after_light_save_reload", detail=lambda: "loss(truth) after save() without raw data + from_file() (dataset re-read from its file, pad_req %r -> pad_eff %r): %.3e" % (sc.pad_req, sc.pad_eff, L0r), **dict(common, loss="l2_amplitude", batch="full", history="light_save_reload"))
        for f in (pz, build["dataset_file"]):
            with contextlib.suppress(OSError):
                os.remove(f)
    frac = np.abs(sc.positions_px - np.rint(sc.positions_px))
    nfrac = int((frac.max(axis=1) > 1e-3).sum())
    par = "".join("o" if n % 2 else "e" for n in sc.roi) + ("sq" if sc.roi[0] == sc.roi[1] else "ns")
    ctx.nontrivial((kind, sc.obj_type, sc.num_slices, sc.num_probes, par, "b1" if 1 in bsizes else "bp", clip), sc.meta["phase_std"] >= 0.1 and (nfrac >= 2 or kind.startswith("constant")) and minpert >= 1e-4)
    ctx.observe(scene=sc.describe(), roll=list(roll), clip=clip, detector_units=build.get("detector_units", "A^-1"), dset_pre=list(build.get("dset_pre", ())), pt_twice=bool(build.get("pt_twice")), probe_order=build.get("probe_order"), raw_data_file=bool(build.get("dataset_file")), worst_truth_over_perturbed=worst_ratio, min_perturbed_loss=float(minpert), fractional_positions=nfrac)
