"""C14 - serializer skip lists remove exactly the named attributes, at save or load time.

Oracle: the expected object is the *no-skip round trip* ``load(save(x))`` pruned in memory
(attribute names in S removed at every attribute-nesting level, attributes whose in-memory value
is an instance of a save-time-skipped type removed), compared with ``deq(strict)`` against
  (1) load(save(x, skip=S+T))            - save-time skipping, stored lists honoured by a plain load
  (2) load(save(x), skip=S)              - load-time skipping by name
  (3) load(save(x, skip=S+T), skip=S2)   - both
so the relaxations of C01 cancel out and all remaining attributes must load exactly as they would
without skipping.
"""
from __future__ import annotations

import hashlib
import os
import shutil
import warnings

PROPERTY = "C14"
LEVEL = "exploration"
ANCHOR_FILES = ["quantem/core/io/serialize.py", "quantem/diffractive_imaging/ptychography.py"]
RULE = (
    "seeded graphs whose nested AutoSerialize objects hang off attributes to depth 3, attribute names and dict keys drawn from a pool "
    "of 8 (the same name recurs at several depths and as dict key); S = subset of pool + absent names (thorough: all 2^8 subsets of the "
    "pool per graph family, quick: seeded subsets incl. empty and full); T = seeded list of types from {ndarray, Tensor, Parameter, int, float, "
    "str, bool, list, tuple, dict, set, Path, np.float64, Leaf (an AutoSerialize class with a subclass), NoneType, np.generic, np.complexfloating, np.datetime64, "
    "np.number}; virtual skip types (isinstance is not an MRO lookup): collections.abc Mapping / MutableMapping / Sequence / MutableSequence / Set / Sized / Iterable / Container / Collection / "
    "Hashable / Callable, numbers Number / Complex / Real / Integral, os.PathLike, typing SupportsFloat / SupportsIndex / SupportsComplex, own ABCs with register()ed classes (also through a "
    "sub-ABC's registry), an ABC with __subclasshook__, a class whose metaclass defines __instancecheck__ - each alone on a 'zoo' graph (every value kind at depths 1..3) and on a seeded family, "
    "mixed with concrete types / names / load-time lists, in bare form, on the 55-level chain, the 1100-attribute object and nn.Module roots; every object also carries a complex / datetime64 / timedelta64 / bytes_ NumPy scalar (stored as a flagged 0-d array) and array-ish type lists "
    "([ndarray], [ndarray, Tensor], [generic], ...) run on every family; both stores alternate. "
    "root nn.Module+AutoSerialize objects (both MRO orders) x 9 fixed + seeded name sets over {2 sub-modules, 2 parameters, 2 buffers, 6 plain attributes incl. a nested "
    "object} x type lists x both stores; Ptychography.save skip forms and shared skip lists. "
    "widening: store(zip/dir/auto) x mode(w/o onto an existing object) x compression(None/0/9) x skip form(list/tuple/bare) on small graphs; one sub-object / array "
    "reachable under two names and one level down; arrays / tensors in non-contiguous, read-only, expanded layouts as attribute values; an object with 1100 attributes "
    "(367 skipped) and a 55-level chain with the same names at every level; neutral calls (print_file, print_tree, deepcopy, unrelated loads) between the steps; a share of "
    "cases under torch.no_grad / inference_mode / set_grad_enabled(False) / default dtype float64 / np.errstate(raise) / deterministic algorithms. "
    "non-trivial = S or T removes >=1 attribute at object depth >=2 and >=1 attribute survives; distinct = (graph signature, S, T)"
)
ASSUMPTIONS = [
    "nested AutoSerialize objects are reached through attributes only (objects inside containers are outside the claim)",
    "skip names are attribute names of the graph or absent names, never names of methods / class attributes of the classes involved",
    "type skipping is judged at save time only (isinstance semantics on the in-memory value); load-time skipping is judged for names",
    "expected value = in-memory pruning of the no-skip round trip, so the C01 relaxations cancel; comparison is deq 'loaded' (strict, rng/logger by kind)",
    "a listed type may be any class object, including ABCs / protocols / metaclass-checked classes; the virtual types used decide isinstance(v, T) by type(v) alone "
    "(== issubclass(type(v), T)) and are importable under the module.qualname the serializer records",
    "attribute names are free of '/' and of the serializer's reserved metadata names (as in C01)",
    "root objects that are nn.Module and AutoSerialize (both MRO orders): a skipped name may address a sub-module, parameter, buffer (persistent or not) or plain attribute; the "
    "loaded object is judged with hasattr, state_dict keys, named_children and named_buffers/parameters against the pruned no-skip round trip (classifier nested_kind=root_hybrid, "
    "never matched by the known finding about hybrids *nested below* the root)",
    "for such roots, type lists only contain types that no nn.Module-internal attribute is an instance of: save(skip=[dict]) or [bool] removes nn.Module's own _parameters / training "
    "entries and skip=[torch.Tensor] does not reach registered parameters / buffers (they sit in nn.Module's dicts) - observed on the unchanged tree, reported, not judged",
]
BUDGET = {"quick": {"soft_s": 300}, "thorough": {"soft_s": 1200}}
MIN_EVALUATIONS = {"quick": 150, "thorough": 2000}
REQUIRED_COUNTERS = ["eval:save_time_skip", "eval:load_time_skip", "eval:save_and_load_skip", "eval:ptycho_skip_forms_differ", "eval:ptycho_skipped_name_present",
                     "eval:root_hybrid_skip", "eval:root_hybrid_state_dict", "eval:root_hybrid_named_modules", "removed_by_virtual_type", "virtual_type_cases"]
EXHAUSTIVE = {"quick": False, "thorough": False}

POOL = ["a", "b", "c", "d", "e", "f", "g", "h"]
ABSENT = ["zz", "not_there", "a2"]
LONG_NAMES = ["payload", "meta"]  # every object of the graph also carries these two attributes
TYPE_NAMES = ["ndarray", "Tensor", "Parameter", "int", "float", "str", "bool", "list", "tuple", "dict", "set", "Path", "float64", "Leaf", "NoneType",
              "generic", "complexfloating", "datetime64", "number"]
# type lists that meet the NumPy scalars stored as flagged 0-d arrays (complex / datetime64 / timedelta64 / bytes_): run on every family
ARRAYISH_TYPE_LISTS = [["ndarray"], ["ndarray", "Tensor"], ["generic"], ["complexfloating", "ndarray"], ["datetime64"], ["Tensor", "number"]]
N_FAMILIES = {"quick": 12, "thorough": 10}
# skip types whose isinstance() is not a lookup in type(value).__mro__ (ABCs with registered / __subclasshook__ subclasses, runtime protocols,
# metaclass __instancecheck__); the classes are in vf/props/c14_types.py (imported in workers only)
VIRTUAL_TYPE_NAMES = ["abc.Mapping", "abc.MutableMapping", "abc.Sequence", "abc.MutableSequence", "abc.Set", "abc.Sized", "abc.Iterable", "abc.Container", "abc.Collection",
                      "abc.Hashable", "abc.Callable", "numbers.Number", "numbers.Complex", "numbers.Real", "numbers.Integral", "os.PathLike", "typing.SupportsFloat",
                      "typing.SupportsIndex", "typing.SupportsComplex", "c14.Registered", "c14.RegisteredNarrow", "c14.Hooked", "c14.ByMeta"]
# for nn.Module-based roots: virtual types that no nn.Module-internal attribute (dicts, sets, bools, None) is an instance of
ROOT_NET_VIRTUAL_TYPES = [["c14.Registered"], ["c14.Hooked"], ["os.PathLike", "c14.RegisteredNarrow", "str"], ["typing.SupportsComplex", "c14.Registered"]]


ROOT_NET_SKIPS = [["head"], ["scale", "note"], ["running_mean", "scratch", "history", "absent_name"], ["encoder", "frozen", "child", "meta", "stamp", "plain_t"],
                  ["note", "history"], ["encoder"], ["scale", "frozen", "running_mean"], [],
                  ["encoder", "head", "scale", "frozen", "running_mean", "scratch", "note", "history", "meta", "stamp", "plain_t", "child"]]
ROOT_NET_MEMBER_NAMES = ["encoder", "head", "scale", "frozen", "running_mean", "scratch", "note", "history", "meta", "stamp", "plain_t", "child"]
# type lists for nn.Module-based roots: only types that no nn.Module-internal attribute (dicts, sets, bools, None, registered tensors) is an instance of
ROOT_NET_TYPES = [[], [], ["str"], ["ndarray", "float64"], ["Leaf"], ["generic"], ["Path", "complexfloating"]]
PTYCHO_ITEMS = ["_snapshots", "_obj_fov_mask", "_rng", "_iter_losses", "_propagators", "type:Tensor", "type:ndarray", "nested:_initial_probe"]


def plan(tier, seed):
    import numpy as np

    rng = np.random.default_rng([seed, 14, 4242])
    specs = []
    # root objects that are nn.Module *and* AutoSerialize (both MRO orders): skip names addressing sub-modules, parameters, buffers, plain attributes
    rh = 0
    for cls in ("RootNetModuleFirst", "RootNetSerializeFirst"):
        for store in ("zip", "dir"):
            sets = list(ROOT_NET_SKIPS)
            for _ in range(3 if tier == "quick" else 24):
                k = int(rng.integers(1, 7))
                sets.append([ROOT_NET_MEMBER_NAMES[int(i)] for i in sorted(rng.permutation(len(ROOT_NET_MEMBER_NAMES))[:k])])
            for S in sets:
                rh += 1
                S2 = None
                if rh % 3 == 1:
                    S2 = [ROOT_NET_MEMBER_NAMES[int(i)] for i in sorted(rng.permutation(len(ROOT_NET_MEMBER_NAMES))[: int(rng.integers(0, 4))])]
                specs.append({"kind": "root_hybrid", "cls": cls, "store": store, "S": S, "T": ROOT_NET_TYPES[rh % len(ROOT_NET_TYPES)], "S2": S2, "scalar_skip": len(S) == 1 and rh % 2 == 0,
                              "variant": rh % 5, "_must_run": tier == "quick"})
    # the library's own user of skip lists: Ptychography.save(skip=...) given as bare str / list / tuple / bare type
    for store in ("zip", "dir"):
        for raw in (False, True):
            for item in PTYCHO_ITEMS:
                if item.startswith("nested:") and raw:
                    continue
                specs.append({"kind": "ptycho", "store": store, "raw": raw, "item": item, "_must_run": True})
        for item in ("_snapshots", "type:ndarray", "empty"):
            specs.append({"kind": "ptycho_shared", "store": store, "item": item, "_must_run": True})
    nfam = N_FAMILIES[tier]
    if tier == "thorough":
        # all 2^8 subsets of the pool on every graph family (name skipping only), alternating stores
        for fam in range(nfam):
            for mask in range(256):
                S = [POOL[i] for i in range(8) if mask >> i & 1]
                if mask % 5 == 0:
                    S = S + [ABSENT[mask % 3]]
                specs.append({"family": fam, "S": S, "T": [], "S2": None, "store": "zip" if (mask + fam) % 2 else "dir"})
    # the API also accepts a single str / a single type instead of a list (multi-character names on purpose)
    for fam in range(nfam):
        specs.append({"family": fam, "S": [LONG_NAMES[fam % len(LONG_NAMES)]], "T": [], "S2": None, "store": "zip" if fam % 2 else "dir", "scalar_skip": True})
        specs.append({"family": fam, "S": [], "T": [TYPE_NAMES[fam % len(TYPE_NAMES)]], "S2": None, "store": "dir" if fam % 2 else "zip", "scalar_skip": True})
    for fam in range(nfam):
        for jj in range(2 if tier == "quick" else len(ARRAYISH_TYPE_LISTS)):
            T = ARRAYISH_TYPE_LISTS[(fam + jj * 3 + seed) % len(ARRAYISH_TYPE_LISTS)]
            specs.append({"family": fam, "S": [POOL[(fam + jj) % 8]] if jj else [], "T": T, "S2": None, "store": "zip" if (fam + jj) % 2 else "dir"})
    # option cross product on a small graph: store x mode x compression x skip form
    cx = 0
    for store in ("zip", "dir", "auto_zip", "auto_dir"):
        for mode in ("w", "o"):
            for comp in (None, 0, 9):
                for form in ("list", "tuple", "bare"):
                    cx += 1
                    if tier == "quick" and (cx + seed) % 3:
                        continue
                    S = [POOL[cx % 8]] if form == "bare" else [POOL[cx % 8], POOL[(cx + 3) % 8], "payload"]
                    specs.append({"family": 4 * (cx % 3), "S": S, "T": [] if form == "bare" else [["str"], ["ndarray"], []][cx % 3], "S2": None, "store": store.replace("auto_", ""),
                                  "auto": store.startswith("auto"), "mode": mode, "compression": comp, "form": form, "scalar_skip": form == "bare", "cross": True})
    # a type that cannot be re-imported under its recorded name (NoneType) and one that can: always run
    for fam in (0, 1, 2, 3):
        specs.append({"family": fam, "S": [POOL[fam]] if fam % 2 else [], "T": ["NoneType"] if fam < 2 else ["NoneType", "str"], "S2": None, "store": "zip" if fam % 2 else "dir", "_must_run": True})
    # size thresholds: > 1000 attributes (a third of them skipped), > 50 levels with the same names at every level
    for store in ("zip", "dir"):
        specs.append({"family": "wide", "S": ["a%04d" % i for i in range(0, 1100, 3)] + ["arr07", "zz"], "T": ["str"], "S2": ["a0001", "arr08"], "store": store, "_must_run": tier == "quick"})
        specs.append({"family": "deep", "S": ["b"], "T": [], "S2": ["payload"], "store": store, "_must_run": tier == "quick"})
    specs.append({"family": "deep", "S": ["a", "payload"], "T": ["ndarray"], "S2": None, "store": "zip"})
    nrand = 260 if tier == "quick" else 900
    for r in range(nrand):
        fam = r % nfam
        k = int(rng.integers(0, 9))
        S = [POOL[int(i)] for i in sorted(rng.permutation(8)[:k])]
        if r % 7 == 0:
            S = list(POOL)
        if r % 11 == 0:
            S = []
        if rng.random() < 0.3:
            S = S + [ABSENT[int(rng.integers(3))]]
        T = []
        if r % 3 != 0:
            nt = int(rng.integers(1, 4))
            T = [TYPE_NAMES[int(i)] for i in sorted(rng.permutation(len(TYPE_NAMES))[:nt])]
        S2 = None
        if r % 4 == 1:  # load-time list different from the save-time list
            k2 = int(rng.integers(0, 5))
            S2 = [POOL[int(i)] for i in sorted(rng.permutation(8)[:k2])]
        specs.append({"family": fam, "S": S, "T": T, "S2": S2, "store": "zip" if r % 2 else "dir", "scalar_skip": r % 13 == 5 and len(S) + len(T) == 1})
    # ---- virtual skip types: isinstance(value, T) holds although T is not in type(value).__mro__ (appended last: earlier case indices unchanged)
    quick = tier == "quick"
    nv = len(VIRTUAL_TYPE_NAMES)
    for j, tn in enumerate(VIRTUAL_TYPE_NAMES):
        # each type alone on the 'zoo' graph (one attribute of every value kind on every object, depths 1..3), list and bare form
        for store in (("zip", "dir")[(j + seed) % 2],) if quick else ("zip", "dir"):
            specs.append({"family": "zoo", "S": [], "T": [tn], "S2": None, "store": store, "scalar_skip": (j + seed + (store == "dir")) % 3 == 0, "_must_run": quick})
        # ... and on seeded families next to a name, sometimes with a concrete type and a different load-time list
        for rep_ in range(1 if quick else 5):
            fam = int(rng.integers(nfam))
            S = [POOL[int(i)] for i in sorted(rng.permutation(8)[: int(rng.integers(0, 3))])]
            T = [tn] + ([TYPE_NAMES[int(rng.integers(len(TYPE_NAMES)))]] if rng.random() < 0.4 else [])
            if rng.random() < 0.5:
                T = T[::-1]
            S2 = [POOL[int(i)] for i in sorted(rng.permutation(8)[: int(rng.integers(0, 4))])] if rng.random() < 0.25 else None
            specs.append({"family": fam, "S": S, "T": T, "S2": S2, "store": "zip" if (j + rep_) % 2 else "dir", "scalar_skip": len(S) + len(T) == 1 and rng.random() < 0.3})
    for r in range(36 if quick else 300):
        fam = "zoo" if r % 5 == 0 else int(rng.integers(nfam))
        T = [VIRTUAL_TYPE_NAMES[int(i)] for i in sorted(rng.permutation(nv)[: int(rng.integers(1, 4))])]
        T += [TYPE_NAMES[int(i)] for i in sorted(rng.permutation(len(TYPE_NAMES))[: int(rng.integers(0, 3))])]
        T = [T[int(i)] for i in rng.permutation(len(T))]
        S = [POOL[int(i)] for i in sorted(rng.permutation(8)[: int(rng.integers(0, 4))])]
        if rng.random() < 0.3:
            S = S + [ABSENT[int(rng.integers(3))]]
        S2 = [POOL[int(i)] for i in sorted(rng.permutation(8)[: int(rng.integers(0, 5))])] if r % 4 == 1 else None
        specs.append({"family": fam, "S": S, "T": T, "S2": S2, "store": "zip" if r % 2 else "dir"})
    # size thresholds with a virtual type: the same int / list / str attributes at 55 levels; 660 of 1100 attributes are numbers.Real
    specs.append({"family": "deep", "S": [], "T": ["numbers.Integral"], "S2": None, "store": "dir", "_must_run": quick})
    specs.append({"family": "deep", "S": ["b"], "T": ["abc.Sequence", "ndarray"], "S2": ["a"], "store": "zip"})
    specs.append({"family": "wide", "S": ["a0002", "arr03"], "T": ["numbers.Real"], "S2": None, "store": "zip" if seed % 2 else "dir"})
    # nn.Module + AutoSerialize roots
    rv = 0
    for cls in ("RootNetModuleFirst", "RootNetSerializeFirst"):
        for store in ("zip", "dir"):
            for T in ROOT_NET_VIRTUAL_TYPES:
                rv += 1
                if quick and (rv + seed) % 2:
                    continue
                S = [["note"], ["encoder", "meta"], [], ["scale", "history"], ["child", "absent_name"]][rv % 5]
                specs.append({"kind": "root_hybrid", "cls": cls, "store": store, "S": S, "T": T, "S2": ["stamp"] if rv % 3 == 0 else None, "scalar_skip": not S and len(T) == 1,
                              "variant": rv % 5, "_must_run": quick and rv <= 4})
    # the library's own user of skip lists with an ABC
    for store in ("zip", "dir"):
        for item in ("type:abc.Mapping", "type:numbers.Number"):
            specs.append({"kind": "ptycho", "store": store, "raw": store == "dir", "item": item})
    return specs


def setup(ctx):
    warnings.simplefilter("ignore")
    from pathlib import Path

    import numpy as np
    import torch
    from quantem.core.io import load

    from vf import deq, sergraph

    class_map = {
        "ndarray": np.ndarray, "Tensor": torch.Tensor, "Parameter": torch.nn.Parameter, "int": int, "float": float, "str": str, "bool": bool,
        "list": list, "tuple": tuple, "dict": dict, "set": set, "Path": Path, "float64": np.float64, "Leaf": sergraph.Leaf, "NoneType": type(None),
        "generic": np.generic, "complexfloating": np.complexfloating, "datetime64": np.datetime64, "number": np.number,
    }
    from vf.props import c14_types

    assert sorted(c14_types.VIRTUAL_TYPES) == sorted(VIRTUAL_TYPE_NAMES)
    class_map.update(c14_types.VIRTUAL_TYPES)
    ctx.state.update(load=load, sg=sergraph, deq=deq, types=class_map, pt=None)
    os.makedirs(os.path.join(ctx.tmp, "c14"), exist_ok=True)


# ------------------------------------------------------------------------------------------------
# graphs


def _np_scalar_without_json_form(rng, which):
    """NumPy scalars the serializer stores as flagged 0-d arrays: they are not ndarrays and not JSON numbers."""
    import numpy as np

    which %= 6
    if which == 0:
        return np.complex64(complex(float(rng.integers(1, 9)), -0.5))
    if which == 1:
        return np.complex128(complex(0.25, float(rng.integers(1, 9))))
    if which == 2:
        return np.datetime64("2021-03-%02d" % int(rng.integers(1, 28)))
    if which == 3:
        return np.timedelta64(int(rng.integers(1, 999)), "s")
    if which == 4:
        return np.bytes_(b"by" + bytes([65 + int(rng.integers(20))]))
    return np.datetime64("2020-01-01T00:00:00.000000001") + np.timedelta64(int(rng.integers(1, 999)), "ns")


def _value(rng, sg, names, c=None):
    import numpy as np
    from pathlib import Path

    if c is None:
        c = int(rng.integers(26))
    if c == 24:
        return sg.build_kind("arr:layout:" + ["transposed", "stride2", "readonly", "broadcast", "view_of_torch"][int(rng.integers(5))], rng)
    if c == 25:
        return sg.build_kind("tensor:layout:" + ["expanded", "permuted", "stride2", "from_numpy"][int(rng.integers(4))], rng)
    if c >= 20:
        return _np_scalar_without_json_form(rng, c - 20 + int(rng.integers(2)) * 4)
    if c == 0:
        return int(rng.integers(-99, 99))
    if c == 1:
        return float(rng.normal())
    if c == 2:
        return bool(rng.integers(2))
    if c == 3:
        return "s%d" % int(rng.integers(99))
    if c == 4:
        return None
    if c == 5:
        return np.int64(int(rng.integers(99)))
    if c == 6:
        return np.float64(float(rng.normal()))
    if c == 7:
        return np.float32(1.5)
    if c == 8:
        return sg.make_array(rng, ["float32", "int16", "complex64", "U"][int(rng.integers(4))], ["0d", "1d", "2d", "e1"][int(rng.integers(4))])
    if c == 9:
        return sg.make_tensor(rng, ["float32", "int64"][int(rng.integers(2))])
    if c == 10:
        return sg.build_kind("tensor:parameter", rng)
    if c == 11:
        return [int(v) for v in rng.integers(0, 9, size=3)]
    if c == 12:
        return ["x", 1, None, [2.5]]
    if c == 13:  # dict whose keys come from the same pool: keys are not attributes and must survive
        return {k: (int(rng.integers(9)) if j % 2 else sg.make_array(rng, "int8", "1d")) for j, k in enumerate(names[: int(rng.integers(1, 4))])}
    if c == 14:
        return (1, "t", 2.5)
    if c == 15:
        return {1, 2, int(rng.integers(3, 99))}
    if c == 16:
        return Path("some/path %d" % int(rng.integers(9)))
    if c == 17:
        return {"a": {"b": [1, 2], "c": "deep"}, "h": None}
    if c == 18:
        return np.bool_(True)
    return float("nan")


def _obj(rng, sg, depth, maxdepth, cls, hybrid=False):
    """hybrid=True: one child per level is an object that is AutoSerialize *and* nn.Module."""
    import numpy as np
    import torch

    o = cls()
    in_module = isinstance(o, torch.nn.Module)
    o.payload = sg.make_array(rng, "float32", "1d")
    o.meta = {"depth": depth, "payload": "a dict key, not an attribute"}
    o.stamp = _np_scalar_without_json_form(rng, int(rng.integers(6)))  # at every nesting level
    n = int(rng.integers(3, 8))
    names = [POOL[int(i)] for i in rng.permutation(8)[:n]]
    child_slots = 0
    for j, nm in enumerate(names):
        if depth < maxdepth and (j == 0 or (child_slots < 2 and rng.random() < 0.25)):
            child_slots += 1
            sub = [sg.Node, sg.Leaf, sg.Other, sg.SubLeaf][int(rng.integers(4))]
            setattr(o, nm, _obj(rng, sg, depth + 1, maxdepth, sub, hybrid))
        else:
            v = _value(rng, sg, [POOL[int(i)] for i in rng.permutation(8)])
            if in_module and isinstance(v, torch.nn.Parameter):
                v = v.detach().clone()  # a Parameter set on a module is registered, not stored as a plain attribute
            setattr(o, nm, v)
    if hybrid and not in_module and depth < maxdepth and not any(isinstance(v, sg.HybridModule) for v in vars(o).values()) and depth <= 2:
        free = [nm for nm in POOL if nm not in vars(o)]
        if free:
            setattr(o, free[0], _obj(rng, sg, depth + 1, maxdepth, sg.HybridModule, hybrid))
    return o


def build_graph(seed, family, sg):
    import numpy as np

    if family == "wide":  # size threshold: > 1000 attributes on one object
        rng = np.random.default_rng([int(seed), 14, 9])
        w = sg.Node()
        for i in range(1100):
            setattr(w, "a%04d" % i, [i, float(i) + 0.5, "s%d" % i, None, np.int64(i)][i % 5])
        for i in range(20):
            setattr(w, "arr%02d" % i, np.full((2,), i))
        w.child = sg.make_leaf(rng)
        w.child.a0003 = "same name one level down"
        return w
    if family == "deep":  # size threshold: > 50 levels of attribute nesting, the same names at every level
        rng = np.random.default_rng([int(seed), 14, 10])
        o = sg.Leaf()
        o.a, o.b = 0, "bottom"
        for i in range(55):
            q = [sg.Leaf, sg.Other, sg.Node][i % 3]()
            q.c = o
            q.a = i + 1
            q.b = np.full((2,), i)
            q.payload = [i, "x"]
            o = q
        return o
    if family == "zoo":  # one attribute of every value kind on every object, depths 1..3, pool names recur at every depth
        rng = np.random.default_rng([int(seed), 14, 11])

        def level(cls, depth):
            o = cls()
            o.payload = sg.make_array(rng, "float32", "1d")
            o.meta = {"depth": depth, "payload": "a dict key, not an attribute"}
            o.stamp = _np_scalar_without_json_form(rng, int(rng.integers(6)))
            for c in range(26):
                setattr(o, "k%02d" % c, _value(rng, sg, [POOL[int(i)] for i in rng.permutation(8)], c))
            for nm in POOL[3:]:
                setattr(o, nm, _value(rng, sg, [POOL[int(i)] for i in rng.permutation(8)]))
            if depth == 1:
                o.a, o.b, o.c = level(sg.Leaf, 2), level(sg.Other, 2), level(sg.SubLeaf, 2)
            elif depth == 2:
                setattr(o, POOL[int(rng.integers(3))], level([sg.Leaf, sg.Other, sg.SubLeaf, sg.Node][int(rng.integers(4))], 3))
            return o

        return level(sg.Node, 1)
    rng = np.random.default_rng([int(seed), 14, 7, int(family)])
    x = _obj(rng, sg, 1, 3 if family % 4 else 4, sg.Node, hybrid=family % 3 == 2)
    if family % 4 == 1:
        # one sub-object / array / list reachable under two attribute names (and one level down): skipping one name must leave the other
        free = [nm for nm in POOL if nm not in vars(x)]
        shared_obj = sg.make_leaf(rng)
        shared_obj.payload = sg.make_array(rng, "int16", "1d")
        shared_arr = sg.make_array(rng, "float32", "2d")
        if len(free) >= 2:
            setattr(x, free[0], shared_obj)
            setattr(x, free[1], shared_obj)
        x.shared_a = shared_arr
        x.shared_b = shared_arr
        for v in list(vars(x).values()):
            if dq_is_plain_child(v):
                v.shared_a = shared_arr
                v.again = shared_obj
                break
    return x


def dq_is_plain_child(v):
    import torch

    return getattr(type(v), "__autoserialize_marker__", None) is not None and not isinstance(v, torch.nn.Module)


def hybrid_paths(o, dq, path="obj"):
    """dotted paths of the attribute-nested objects that are nn.Module and AutoSerialize at once."""
    import torch

    out = []
    for k, v in vars(o).items():
        if dq.is_autoserialize(v):
            if isinstance(v, torch.nn.Module):
                out.append(path + "." + k)
            out.extend(hybrid_paths(v, dq, path + "." + k))
    return out


def _nested_kind(path, hpaths):
    return "module_hybrid" if any(path.startswith(h + ".") for h in hpaths) else "plain"


# ------------------------------------------------------------------------------------------------
# expected object


def _prune(r0, x, names, types, deq, removed, depth=1):
    """pruned copy of the no-skip round trip r0 (values are shared, objects along attribute nesting are
    rebuilt), walking the original x in parallel: types are judged on the in-memory value, exactly what
    save() sees.  removed collects (depth, name, why)."""
    out = type(r0).__new__(type(r0))
    xs = vars(x)
    for nm, rv in vars(r0).items():
        if nm in names:
            removed.append((depth, nm, "name"))
            continue
        if nm in xs:
            xv = xs[nm]
            if types and isinstance(xv, types):
                removed.append((depth, nm, "type" if any(t in type(xv).__mro__ for t in types) else "vtype"))
                continue
            if deq.is_autoserialize(xv) and deq.is_autoserialize(rv):
                rv = _prune(rv, xv, names, types, deq, removed, depth + 1)
        vars(out)[nm] = rv  # not setattr: nn.Module.__setattr__ needs an initialised module
    return out


def _count_attrs(o, deq):
    n = 0
    for v in vars(o).values():
        n += 1
        if deq.is_autoserialize(v):
            n += _count_attrs(v, deq)
    return n


def _judge(ctx, got, expected, mechanism, S_all, fields, what, hpaths=()):
    dq = ctx.state["deq"]
    ds = dq.diffs(expected, got, "loaded", limit=60)
    if not ds:
        ctx.check(True, mechanism)
        return
    first = True
    per_class = {}
    for d in ds:
        last = d.path.rsplit(".", 1)[-1]
        if d.what == "attr_extra":
            event = "skipped_name_present" if last in S_all else "skipped_attribute_present"
        elif d.what == "attr_missing":
            event = "survivor_missing"
        else:
            event = "survivor_differs"
        nk = _nested_kind(d.path, hpaths)
        per_class[(nk, event)] = per_class.get((nk, event), 0) + 1
        if per_class[(nk, event)] > 3:
            continue  # at most three records per (nested kind, event) so that no class hides another
        f = dict(fields, event=event, nested_kind=nk, object_depth=d.path.count("."), **d.fields())
        msg = "%s: %s [%s%s]" % (what, d, event, ", inside an nn.Module+AutoSerialize object stored as one torch.save blob" if nk == "module_hybrid" else "")
        if first:
            ctx.check(False, mechanism, msg, **f)
            first = False
        else:
            ctx.viol(mechanism, msg, **f)


def _ptycho(ctx):
    """a tiny real Ptychography object (3x3 scan, 8x8 detector), built once per worker through the library's own constructors."""
    if ctx.state["pt"] is None:
        import numpy as np

        from vf import scenes

        rng = np.random.default_rng([int(ctx.seed), 14, 31])
        sc = scenes.make_scene(rng, gpts=(3, 3), roi=(8, 8), num_slices=1, num_modes=1, obj_type="complex", pad_req=(0, 0))
        ctx.state["pt"] = scenes.build_library(sc, scenes.simulate_scene(sc), obj_init="uniform", install_truth=False)
    return ctx.state["pt"]


def _keys(o, dq, prefix=""):
    out = set()
    for k, v in vars(o).items():
        out.add(prefix + k)
        if dq.is_autoserialize(v):
            out |= _keys(v, dq, prefix + k + ".")
    return out


def _run_ptycho(spec, idx, ctx):
    """Ptychography.save(skip=<form>) for the forms the signature allows; judged on load() (and from_file) results."""
    import numpy as np
    import torch

    load, dq = ctx.state["load"], ctx.state["deq"]
    pt = _ptycho(ctx)
    store, raw, item = spec["store"], spec["raw"], spec["item"]
    nested = item.startswith("nested:")
    if item.startswith("type:"):
        val = ctx.state["types"][item[5:]]
    else:
        val = item.split(":")[-1]
    if isinstance(val, str) and not nested and val not in vars(pt):
        ctx.count("ptycho_attribute_unavailable")
        ctx.nontrivial("ptycho-unavailable", False)
        return
    base = os.path.join(ctx.tmp, "c14", "case%d" % idx)
    shutil.rmtree(base, ignore_errors=True)
    os.makedirs(base)
    ext = ".zip" if store == "zip" else ""
    forms = {"bare": val, "list": [val], "tuple": (val,)}
    keys, roots = {}, {}
    hp = hybrid_paths(pt, dq)
    f = {"store": store, "save_raw_data": raw, "item": item, "nested_kind": "plain"}
    try:
        for form, arg in forms.items():
            p = os.path.join(base, form + ext)
            before = list(arg) if isinstance(arg, (list, tuple)) else arg
            pt.save(p, store=store, skip=arg, save_raw_data=raw, verbose=0)
            after = list(arg) if isinstance(arg, (list, tuple)) else arg
            ctx.check(after == before, "skip_argument_mutated", lambda: "Ptychography.save changed the caller's skip argument: %r -> %r" % (before, after), api="Ptychography.save", form=form, **f)
            r = load(p)
            roots[form], keys[form] = r, _keys(r, dq)
            if isinstance(val, str):
                where = sorted(k for k in keys[form] if k.rsplit(".", 1)[-1] == val)
                if not where:
                    ctx.check(True, "ptycho_skipped_name_present")
                # occurrences inside the object / probe / dataset models (nn.Module + AutoSerialize, one torch.save blob) are the known finding
                for nk in sorted(set(_nested_kind("obj." + k, hp) for k in where)):
                    sub = [k for k in where if _nested_kind("obj." + k, hp) == nk]
                    ctx.check(False, "ptycho_skipped_name_present", "Ptychography.save(skip=%r) [%s form]: attribute still present after load at %s" % (arg, form, sub),
                              form=form, event="skipped_name_present", **dict(f, nested_kind=nk))
            else:
                left = [k for k, v in vars(r).items() if isinstance(v, val)]
                ctx.check(not left, "ptycho_skipped_type_present", lambda: "Ptychography.save(skip=%s) [%s form]: attributes of that type still present: %s" % (item, form, left), form=form,
                          event="skipped_attribute_present", **f)
        for form in ("bare", "tuple"):
            ctx.check(keys[form] == keys["list"], "ptycho_skip_forms_differ", lambda: "skip=%r vs skip=[%r]: extra=%s missing=%s" % (forms[form], val, sorted(keys[form] - keys["list"])[:6], sorted(keys["list"] - keys[form])[:6]),
                      form=form, **f)
        # every other root attribute survives (the defaults '_dset' / 'dset' are removed unless save_raw_data)
        expected_root = set(vars(pt)) - ({val} if isinstance(val, str) and not nested else set()) - (set() if raw else {"_dset"})
        if not isinstance(val, str):
            expected_root = set(k for k in expected_root if not isinstance(vars(pt)[k], val))
        got_root = set(vars(roots["list"])) - {"_dataset_metadata"}
        ctx.check(got_root == expected_root, "ptycho_survivors", lambda: "root attributes after skip=[%s]: extra=%s missing=%s" % (item, sorted(got_root - expected_root), sorted(expected_root - got_root)), **f)
        # the documented loader
        try:
            from quantem.diffractive_imaging.ptychography import Ptychography

            r2 = Ptychography.from_file(os.path.join(base, "bare" + ext), dset=pt.dset, verbose=0)
            if isinstance(val, str) and not nested:
                ctx.check(val not in vars(r2), "ptycho_skipped_name_present", "Ptychography.from_file after save(skip=%r): attribute still present" % (val,), form="bare/from_file", event="skipped_name_present", **f)
            ctx.count("ptycho_from_file_ok")
        except Exception:  # noqa: BLE001  (from_file re-runs preprocessing; its failures are not this property's business)
            ctx.count("ptycho_from_file_failed")
    finally:
        shutil.rmtree(base, ignore_errors=True)
    ctx.count("ptycho_cases")
    ctx.nontrivial("ptycho|%s|%s|%s" % (store, raw, item), True)
    ctx.observe(kind="ptycho", store=store, save_raw_data=raw, item=item, root_attributes=len(vars(roots["list"])), all_keys=len(keys["list"]))


def _run_ptycho_shared(spec, idx, ctx):
    """one skip list object reused for consecutive Ptychography.save calls: the default save first (which adds its implicit
    '_dset' / 'dset' skips), then save_raw_data=True - the second file must contain the dataset, exactly like a save with a
    fresh list, and the caller's list must never change."""
    import numpy as np
    import torch

    load, dq = ctx.state["load"], ctx.state["deq"]
    pt = _ptycho(ctx)
    store, item = spec["store"], spec["item"]
    val = [] if item == "empty" else [{"Tensor": torch.Tensor, "ndarray": np.ndarray}[item[5:]] if item.startswith("type:") else item]
    base = os.path.join(ctx.tmp, "c14", "case%d" % idx)
    shutil.rmtree(base, ignore_errors=True)
    os.makedirs(base)
    ext = ".zip" if store == "zip" else ""
    f = {"store": store, "item": item, "nested_kind": "plain"}
    try:
        shared = list(val)
        p1, p2, p3, p4 = (os.path.join(base, n + ext) for n in ("first_default", "second_raw", "fresh_raw", "third_default"))
        pt.save(p1, store=store, skip=shared, verbose=0)
        ctx.check(shared == val, "skip_argument_mutated", lambda: "Ptychography.save (default) changed the caller's list: %r -> %r" % (val, shared), api="Ptychography.save", form="shared_list", step=1, **f)
        pt.save(p2, store=store, skip=shared, save_raw_data=True, verbose=0)
        ctx.check(shared == val, "skip_argument_mutated", lambda: "Ptychography.save (save_raw_data=True) changed the caller's list: %r -> %r" % (val, shared), api="Ptychography.save", form="shared_list", step=2, **f)
        pt.save(p3, store=store, skip=list(val), save_raw_data=True, verbose=0)
        pt.save(p4, store=store, skip=shared, verbose=0)
        r1, r2, r3, r4 = load(p1), load(p2), load(p3), load(p4)
        ctx.check("_dset" in vars(r2), "shared_skip_list_dropped_dataset", "second save (save_raw_data=True) with the list object already used by a default save: '_dset' is missing from the file "
                  "although it was never named in skip", api="Ptychography.save", **f)
        k2, k3 = _keys(r2, dq), _keys(r3, dq)
        ctx.check(k2 == k3, "shared_skip_list_differs_from_fresh", lambda: "save_raw_data=True with a reused list vs a fresh list: extra=%s missing=%s" % (sorted(k2 - k3)[:6], sorted(k3 - k2)[:6]), api="Ptychography.save", **f)
        ctx.check(_keys(r4, dq) == _keys(r1, dq), "shared_skip_list_differs_from_fresh", lambda: "third (default) save with the reused list differs from the first", api="Ptychography.save", **f)
        ctx.check("_dset" not in vars(r1), "ptycho_survivors", "default save kept '_dset'", **f)
        try:
            from quantem.diffractive_imaging.ptychography import Ptychography

            r5 = Ptychography.from_file(p2, verbose=0)
            ctx.check(getattr(r5, "_dset", None) is not None, "shared_skip_list_dropped_dataset", "Ptychography.from_file(second file): no dataset", api="from_file", **f)
            ctx.count("ptycho_from_file_ok")
        except Exception:  # noqa: BLE001
            ctx.count("ptycho_from_file_failed")
    finally:
        shutil.rmtree(base, ignore_errors=True)
    ctx.count("ptycho_cases")
    ctx.nontrivial("ptycho_shared|%s|%s" % (store, item), True)
    ctx.observe(kind="ptycho_shared", store=store, item=item)


def _run_root_hybrid(spec, idx, ctx):
    """skip lists on a root object that is an nn.Module: judged with hasattr / state_dict / named_children / named_buffers against
    the in-memory pruning of the no-skip round trip."""
    import numpy as np
    import torch

    sg, load, dq = ctx.state["sg"], ctx.state["load"], ctx.state["deq"]
    tmap = ctx.state["types"]
    members = sg.ROOT_NET_MEMBERS
    store, S, Tn = spec["store"], list(spec["S"]), list(spec["T"])
    T = tuple(tmap[t] for t in Tn)
    S2 = S if spec.get("S2") is None else list(spec["S2"])
    torch.manual_seed(1000 + int(spec["variant"]) + int(ctx.seed))
    m = getattr(sg, spec["cls"])(np.random.default_rng([int(ctx.seed), 14, 77, int(spec["variant"])]))
    base = os.path.join(ctx.tmp, "c14", "case%d" % idx)
    shutil.rmtree(base, ignore_errors=True)
    os.makedirs(base)
    ext = ".zip" if store == "zip" else ""
    p_plain, p_skip = os.path.join(base, "plain" + ext), os.path.join(base, "skip" + ext)
    f0 = {"store": store, "cls": spec["cls"], "types": "+".join(Tn), "nested_kind": "root_hybrid"}

    def describe(o):
        return {n: getattr(o, n) for n in members if hasattr(o, n)}

    def by_type(n):
        return members[n] == "plain" and bool(T) and isinstance(getattr(m, n), T)

    def judge(got, names, types_on, when):
        f = dict(f0, when=when)
        desc = describe(got)
        ok = True
        for n in sorted(names):
            if n in members or hasattr(m, n):
                kind = members.get(n, "plain")
                c = ctx.check(not hasattr(got, n), "root_hybrid_skip", "%s-time skip=%s on a %s root: %s %r is still present on the loaded object" % (when, sorted(names), spec["cls"], kind, n),
                              event="skipped_name_present", member_kind=kind, **f)
                ok = ok and c
        removed_by_type = [n for n in members if types_on and n not in names and by_type(n)]
        for n in removed_by_type:
            ctx.check(n not in desc, "root_hybrid_skip", "skip types %s: plain attribute %r (%s) is still present" % (Tn, n, type(getattr(m, n)).__name__), event="skipped_attribute_present", member_kind="plain", **f)
        rem = []
        expected = {n: v for n, v in describe(r0).items() if n not in names and n not in removed_by_type}
        if "child" in expected:
            expected["child"] = _prune(r0.child, m.child, set(names), T if types_on else (), dq, rem, 2)
        for n in expected:
            if n not in desc:
                ctx.check(False, "root_hybrid_skip", "%s-time skip=%s: %s %r, which was not skipped, is missing" % (when, sorted(names), members[n], n), event="survivor_missing", member_kind=members[n], **f)
                continue
            d = dq.deq(expected[n], desc[n], "loaded")
            ctx.check(d is None, "root_hybrid_skip", lambda: "%s-time skip=%s: surviving %s %r differs from the no-skip round trip: %s" % (when, sorted(names), members[n], n, d), event="survivor_differs",
                      member_kind=members[n], **f)
        # nn.Module's own views of the object
        try:
            sd_exp = sorted(k for k in r0.state_dict() if k.split(".")[0] not in names)  # (registration order is not judged)
            sd_got = sorted(got.state_dict())
            ctx.check(sd_got == sd_exp, "root_hybrid_state_dict", lambda: "%s-time skip=%s: state_dict keys %s, expected %s" % (when, sorted(names), sd_got, sd_exp), event="state_dict", **f)
            ch_exp = sorted(n for n, _ in r0.named_children() if n not in names)
            ch_got = sorted(n for n, _ in got.named_children())
            ctx.check(ch_got == ch_exp, "root_hybrid_named_modules", lambda: "%s-time skip=%s: named_children %s, expected %s" % (when, sorted(names), ch_got, ch_exp), event="named_children", **f)
            bf_exp = sorted(n for n, _ in r0.named_buffers(recurse=False) if n not in names)
            bf_got = sorted(n for n, _ in got.named_buffers(recurse=False))
            pr_exp = sorted(n for n, _ in r0.named_parameters(recurse=False) if n not in names)
            pr_got = sorted(n for n, _ in got.named_parameters(recurse=False))
            ctx.check(bf_got == bf_exp and pr_got == pr_exp, "root_hybrid_named_modules", lambda: "%s-time skip=%s: buffers %s / parameters %s, expected %s / %s" % (when, sorted(names), bf_got, pr_got, bf_exp, pr_exp),
                      event="named_buffers_parameters", **f)
        except Exception as e:  # noqa: BLE001
            ctx.check(False, "root_hybrid_state_dict", "%s-time skip=%s: the loaded module is broken: %r" % (when, sorted(names), e), event="module_unusable", **f)
        return ok

    skip_arg = S + list(T)
    if spec.get("scalar_skip") and len(skip_arg) == 1:
        skip_arg = skip_arg[0]
    elif idx % 2:
        skip_arg = tuple(skip_arg)
    try:
        m.save(p_plain, store=store)
        m.save(p_skip, store=store, skip=skip_arg)
        r0 = load(p_plain)
        ctx.check(all(hasattr(r0, n) for n in members), "root_hybrid_skip", "the no-skip round trip of a %s root lost %s" % (spec["cls"], [n for n in members if not hasattr(r0, n)]), event="survivor_missing",
                  member_kind="any", when="never", **f0)
        got1 = _load(ctx, load, p_skip, (), dict(f0, when="save"))
        if got1 is not None:
            judge(got1, set(S), True, "save")
        got2 = _load(ctx, load, p_plain, S[0] if (spec.get("scalar_skip") and len(S) == 1) else list(S), dict(f0, when="load"))
        if got2 is not None:
            judge(got2, set(S), False, "load")
        got3 = _load(ctx, load, p_skip, list(S2), dict(f0, when="both"))
        if got3 is not None:
            judge(got3, set(S) | set(S2), True, "both")
    finally:
        shutil.rmtree(base, ignore_errors=True)
    kinds_hit = sorted(set(members[n] for n in S if n in members))
    ctx.count("root_hybrid_cases")
    ctx.nontrivial("root_hybrid|%s|%s|%s|%s|%s" % (spec["cls"], store, ",".join(S), ",".join(Tn), ",".join(S2)), len(kinds_hit) >= 1 and len(S) < len(members))
    ctx.observe(kind="root_hybrid", cls=spec["cls"], store=store, S=S, T=Tn, S2=S2, member_kinds_skipped=kinds_hit)


def run_case(spec, idx, ctx):
    if spec.get("kind") == "root_hybrid":
        return _run_root_hybrid(spec, idx, ctx)
    if spec.get("kind") == "ptycho":
        return _run_ptycho(spec, idx, ctx)
    if spec.get("kind") == "ptycho_shared":
        return _run_ptycho_shared(spec, idx, ctx)
    sg, load, dq = ctx.state["sg"], ctx.state["load"], ctx.state["deq"]
    tmap = ctx.state["types"]
    store = spec["store"]
    S, Tn = list(spec["S"]), list(spec["T"])
    T = tuple(tmap[t] for t in Tn)
    S2 = S if spec.get("S2") is None else list(spec["S2"])
    x = build_graph(ctx.seed, spec["family"], sg)
    hp = hybrid_paths(x, dq)
    if hp:
        ctx.count("graphs_with_module_hybrid_child")
    base = os.path.join(ctx.tmp, "c14", "case%d" % idx)
    shutil.rmtree(base, ignore_errors=True)
    os.makedirs(base)
    ext = ".zip" if store == "zip" else ""
    p_plain, p_skip = os.path.join(base, "plain" + ext), os.path.join(base, "skip" + ext)
    fields = {"store": store, "n_types": len(T), "types": "+".join(Tn)}
    skip_arg = S + list(T)
    if spec.get("scalar_skip"):
        skip_arg = skip_arg[0]  # the API also accepts a single str / type
    # options that must not interact with skipping: inferred store, overwrite mode onto an existing object, compression level
    store_arg = "auto" if spec.get("auto") else store
    comp = spec.get("compression", 4)
    mode = spec.get("mode", "w")
    from vf.props.c01 import _ProcessState

    pstate = ["none", "both_no_grad", "both_inference", "grad_disabled", "default_float64", "np_errstate_raise", "deterministic_algorithms"][(idx // 6) % 7] if idx % 6 == 0 else "none"
    ctx.count("process_state:" + pstate)
    neutral = idx % 4 == 0
    _ps = _ProcessState(pstate, "save")
    _ps.__enter__()
    try:
        if mode == "o":
            old = sg.Other()
            old.a, old.stale = "old object", [1, 2]
            old.save(p_skip, store=store_arg)
        x.save(p_plain, store=store_arg, compression_level=comp)
        # the same argument object is handed to save() and later to load(): neither may change it
        if isinstance(skip_arg, list) and idx % 2:
            skip_arg = tuple(skip_arg)
        arg_before = list(skip_arg) if isinstance(skip_arg, (list, tuple)) else skip_arg
        x.save(p_skip, store=store_arg, skip=skip_arg, mode=mode, compression_level=comp)
        if neutral:
            # neutral calls between the steps (printing, copying, an unrelated save / load) must not change what follows
            import contextlib
            import copy
            import io

            from quantem.core.io import print_file

            with contextlib.redirect_stdout(io.StringIO()):
                print_file(p_skip, depth=2)
                x.print_tree(depth=2)
                copy.deepcopy(x)
                load(p_skip)
                load(p_plain, skip=["payload"])
        ctx.check((list(skip_arg) if isinstance(skip_arg, (list, tuple)) else skip_arg) == arg_before, "skip_argument_mutated", lambda: "AutoSerialize.save changed its skip argument: %r -> %r" % (arg_before, skip_arg),
                  api="AutoSerialize.save", store=store, nested_kind="plain")

        r0 = load(p_plain)  # the no-skip round trip

        # (1) save-time skipping, plain load
        rem1 = []
        exp1 = _prune(r0, x, set(S), T, dq, rem1)
        got1 = _load(ctx, load, p_skip, (), dict(fields, when="save"))
        if got1 is None:
            return _finish(ctx, spec, x, exp1, rem1, S, Tn, S2, store)
        _judge(ctx, got1, exp1, "save_time_skip", set(S), dict(fields, when="save"), "load(save(x, skip=S+T)) vs pruned no-skip round trip", hp)
        # (2) load-time skipping by name
        rem2 = []
        exp2 = _prune(r0, x, set(S), (), dq, rem2)
        got2 = _load(ctx, load, p_plain, S if not (spec.get("scalar_skip") and S) else S[0], dict(fields, when="load"))
        if got2 is None:
            return _finish(ctx, spec, x, exp1, rem1, S, Tn, S2, store)
        _judge(ctx, got2, exp2, "load_time_skip", set(S), dict(fields, when="load"), "load(save(x), skip=S) vs pruned no-skip round trip", hp)
        # (3) both (S2 == S unless the spec says otherwise)
        rem3 = []
        exp3 = _prune(r0, x, set(S) | set(S2), T, dq, rem3)
        S2_arg = list(S2) if idx % 2 else tuple(S2)
        got3 = _load(ctx, load, p_skip, S2_arg, dict(fields, when="both"))
        ctx.check(list(S2_arg) == list(S2), "skip_argument_mutated", lambda: "load changed its skip argument: %r -> %r" % (S2, S2_arg), api="load", store=store, nested_kind="plain")
        if isinstance(skip_arg, (list, tuple)):
            # and the save-time argument object reused at load time gives the same object as (3) with S2 = S
            ctx.check(list(skip_arg) == arg_before, "skip_argument_mutated", lambda: "skip argument changed by a later call: %r -> %r" % (arg_before, skip_arg), api="load", store=store, nested_kind="plain")
        if got3 is None:
            return _finish(ctx, spec, x, exp1, rem1, S, Tn, S2, store)
        _judge(ctx, got3, exp3, "save_and_load_skip", set(S) | set(S2), dict(fields, when="both"), "load(save(x, skip=S+T), skip=S2) vs pruned no-skip round trip", hp)
        # direct predicate, independent of deq: no attribute named in S anywhere along attribute nesting
        for tag, got, names in (("save", got1, set(S)), ("load", got2, set(S)), ("both", got3, set(S) | set(S2))):
            bad = _find_names(got, names, dq)
            if not bad:
                ctx.check(True, "skipped_name_reachable")
            for nk in sorted(set(_nested_kind(b[1], hp) for b in bad)):
                sub = [b for b in bad if _nested_kind(b[1], hp) == nk]
                ctx.check(False, "skipped_name_reachable", "after %s-time skip=%s: %s still present" % (tag, sorted(names), sub[:4]), when=tag, store=store, object_depth=sub[0][0],
                          event="skipped_name_present", nested_kind=nk)
    finally:
        _ps.__exit__(None, None, None)
        shutil.rmtree(base, ignore_errors=True)
    _finish(ctx, spec, x, exp1, rem1, S, Tn, S2, store)


def _load(ctx, load, path, skip, fields):
    """load() of a file the skipping save() just wrote must succeed."""
    try:
        r = load(path, skip=skip)
    except Exception as e:  # noqa: BLE001
        ctx.check(False, "load_after_skip_raises", "load(%s, skip=%r) raised %s: %s" % (os.path.basename(path), skip, type(e).__name__, str(e)[:200]), exc_type=type(e).__name__, **fields)
        return None
    ctx.check(True, "load_after_skip_raises")
    return r


def _finish(ctx, spec, x, exp1, rem1, S, Tn, S2, store):
    dq = ctx.state["deq"]
    survivors = _count_attrs(exp1, dq)
    deep_hits = [r for r in rem1 if r[0] >= 2]
    sig = hashlib.sha1(repr((spec["family"], sorted(S), sorted(Tn), sorted(S2))).encode()).hexdigest()[:16]
    ctx.nontrivial(sig, bool(deep_hits) and survivors >= 1)
    ctx.count("removed_by_name", sum(1 for r in rem1 if r[2] == "name"))
    ctx.count("removed_by_type", sum(1 for r in rem1 if r[2] in ("type", "vtype")))
    ctx.count("removed_by_virtual_type", sum(1 for r in rem1 if r[2] == "vtype"))  # instance of a listed type that is not in type(value).__mro__
    if any(t in VIRTUAL_TYPE_NAMES for t in Tn):
        ctx.count("virtual_type_cases")
    ctx.count("store:" + store)
    ctx.observe(family=spec["family"], S=S, T=Tn, S2=S2, removed=[list(r) for r in rem1[:8]], removed_depth_ge2=len(deep_hits), survivors=survivors, total_attrs=_count_attrs(x, dq))


def _find_names(o, names, dq, depth=1, path="obj"):
    out = []
    for k, v in vars(o).items():
        if k in names:
            out.append((depth, path + "." + k))
        if dq.is_autoserialize(v):
            out.extend(_find_names(v, names, dq, depth + 1, path + "." + k))
    return out
