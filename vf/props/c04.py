"""C04 — direct ptychography: batch-invariant, linear, exact on analytic cases.

Every case builds a small but fully general scene (corner-centred bright-field mask, virtual BF
stack, anisotropic samplings, rotation, aberrations, kernel name or alias, upsampling, filters) and
watches real ``DirectPtychography.from_virtual_bfs(...).reconstruct(...)`` executions:

* batch: ``corrected_stack`` for every ``max_batch_size`` vs the un-batched run;
* linear: R(aX+bY) vs aR(X)+bR(Y) (three constructions, same hyper-parameters);
* recombine (ssb / prlx / icom): W_A R_A + W_B R_B vs W R on complementary sub-masks, with the aperture
  weights W recomputed in the harness from the soft-aperture formula on the passively rotated grid
  (obf / mf are run as a negative control and only *observed*);
* closed forms (prlx, no contrast-transfer flipping): zero aberration -> sum of mean-subtracted images / W;
  defocus / astigmatism (+ rotation, upsampling) -> the same sum after Fourier-translating image i by
  +grad(chi)/2pi at its detector pixel (float64 reference in vf/refmodels/dp_closed_form.py).
"""
from __future__ import annotations

import numpy as np

from vf.refmodels import dp_closed_form as ref

PROPERTY = "C04"
LEVEL = "exploration"
ANCHOR_FILES = [
    "quantem/diffractive_imaging/direct_ptychography.py",
    "quantem/diffractive_imaging/direct_ptycho_utils.py",
    "quantem/diffractive_imaging/complex_probe.py",
    "quantem/diffractive_imaging/ptycho_utils.py",
]
RULE = (
    "seeded scenes: scan 5..16 x 5..16 (odd, non-square), detector 7..13, num_bf 5..60, stack family, construction mask "
    "(symmetric disc with crop / ragged mask without crop), sub-mask class (checkerboard, halves, random), rotation, aberration class "
    "(none / defocus / astigmatism / third order, canonical symbols or aliases), all kernel names and aliases, upsampling 1..3, "
    "low/high-pass; relation in {batch, linear, recombine, closed_zero, closed_aberr, spelling = one aberration set in 13 equivalent spellings (key order / aliases / constructor vs override), session = one instance called with all 16 accepted mask "
    "containers/dtypes, one numpy and one torch mask buffer refilled in place (A, B, A, M, B) and calls that raise (bad epsilon / kernel / filter / "
    "batch / mask) followed by the original call, each judged against a fresh instance}; non-trivial = stack variance > 0, num_bf >= 5, "
    "non-zero result and (batch) >= 2 distinct batch sizes compared; distinct = (relation, kernel, upsampling, mask class, aberration class)"
)
ASSUMPTIONS = [
    "the library computes in float32/complex64: residuals are judged relative to max|corrected_stack| (sums of images: max of that and max|corrected_bf|) with bounds 2e-4 (batch), 5e-4 (linearity), 2e-4 (recombination), 1e-3 (closed forms); measured floors: see worst_residuals",
    "generated stacks keep max|x| / max|x - mean_i| <= 12: the float32 FFT is taken before the DC is removed, so the floor relative to the mean-free result grows with that ratio",
    "the i-th image of the stack belongs to the i-th True pixel (row-major) of the corner-centred construction mask; with crop_bf_mask=True the construction mask is symmetric about DC so that cropping keeps DC at [0,0]",
    "aperture weights W = sum over the mask of the squared soft-edged aperture on the passively rotated detector grid (the weight the property divides by); recombination and closed forms are judged with soft_edges=True",
    "recombination is claimed for the single-pass kernels only (ssb, prlx, icom); obf/mf sub-mask results are observed as a negative control, not judged",
    "closed forms are judged for parallax_flip_phase=False without filters; upsampling U is the zero-interleaved image (Fourier tiling) translated on the fine grid",
    "scan sampling is chosen so that the scan Nyquist frequency is 0.6..2.2 aperture radii (otherwise ssb/obf/mf transfer nothing and the result is identically 0)",
    "spelling cases: the aberration set is a mapping - key order (angles before or after magnitudes), aliases (defocus = -C10, astigmatism, astigmatism_angle, coma, coma_angle, Cs) and the split between the constructor's aberration_coefs and reconstruct(override_aberration_coefs=...) (all keys, only the angles, only the magnitudes, empty) must reproduce the magnitude-first canonical spelling on a fresh instance (bound 5e-4; probed bitwise equal on the unchanged tree); every other relation also hands its aberration dict over in a random key order",
    "session cases: the 16 mask forms were probed to be accepted and bitwise equivalent on the unchanged tree; the raising calls were probed to raise there too (a call that does not raise is only counted); a caught exception must leave corrected_stack and every later result unchanged",
    "gc.freeze() is called once per worker after import so that the two gc.collect() calls inside reconstruct() cost ~1 ms instead of ~130 ms; it does not change what is computed",
]
BUDGET = {"quick": {"soft_s": 300}, "thorough": {"soft_s": 1200}}
MIN_EVALUATIONS = {"quick": 1500, "thorough": 10000}
REQUIRED_COUNTERS = ["eval:aberration_spelling_dependence", "eval:mask_form_dependence", "eval:mask_buffer_reuse", "eval:after_error_dependence", "eval:batch_invariance", "eval:linearity", "eval:recombination", "eval:closed_form_zero_aberration", "eval:closed_form_defocus_astigmatism"]
EXHAUSTIVE = {"quick": False, "thorough": False}

# relative bounds (see ASSUMPTIONS); measured floors over the thorough tier in worst_residuals. The float32 floor grows with
# max|x| / contrast of the stack (the DC is removed after a float32 FFT) and with the largest translation phase.
TOL_BATCH = 2e-4
TOL_LIN = 5e-4
TOL_RECOMB = 2e-4
TOL_CLOSED = 1e-3
TOL_SESSION = 5e-4  # session calls (any batch size) vs a fresh un-batched instance; measured floor 2.9e-6
RHO_MAX = 12.0  # generated stacks keep max|x| / max|x - mean_i| <= 12 (vBF stacks have unit mean and a few % contrast)

KERNELS = {
    "ssb": ["ssb", "single-sideband", "acbf", "aberration-corrected-bright-field", "SSB", "Single-Sideband"],
    "obf": ["obf", "optimum-bright-field", "OBF"],
    "mf": ["mf", "matched-filter", "MF"],
    "prlx": ["prlx", "parallax", "tcbf", "tilt-corrected-bright-field", "Parallax"],
    "icom": ["icom", "center-of-mass", "iCOM"],
}
SINGLE_PASS = ("ssb", "prlx", "icom")
ABERR = ["none", "defocus", "astig", "third"]
SUBMASKS = ["checkerboard", "half_rows", "half_cols", "random"]
FAMILIES = ["random", "structured", "sparse", "dead"]
ENERGIES = [60e3, 80e3, 200e3, 300e3]


def plan(tier, seed):
    rng = np.random.default_rng([seed, 4, 777])
    specs = []
    reps = {"quick": {"batch": 20, "linear": 70, "recombine": 100, "closed_zero": 200, "closed_aberr": 600}, "thorough": {"batch": 600, "linear": 2400, "recombine": 3600, "closed_zero": 6000, "closed_aberr": 18000}}[tier]

    def common(kernel):
        names = KERNELS[kernel]
        return {
            "kernel": kernel,
            "name": names[int(rng.integers(len(names)))],
            "up": int(rng.choice([1, 1, 2, 3])),
            "aberr": ABERR[int(rng.integers(len(ABERR)))],
            "crop": bool(rng.random() < 0.5),
            "family": FAMILIES[int(rng.integers(len(FAMILIES)))],
            "filters": str(rng.choice(["none", "none", "low", "high", "both"])),
            "rot": bool(rng.random() < 0.7),
        }

    for kernel in KERNELS:
        for r in range(reps["batch"]):
            for up in (1, 2, 3):
                s = common(kernel)
                s.update(rel="batch", up=up, submask=str(rng.choice(["none", "none"] + SUBMASKS)))
                specs.append(s)
        for r in range(reps["linear"]):
            s = common(kernel)
            s.update(rel="linear", submask=str(rng.choice(["none", "none"] + SUBMASKS)))
            specs.append(s)
        for r in range(reps["recombine"]):
            s = common(kernel)
            s.update(rel="recombine", submask=SUBMASKS[r % len(SUBMASKS)], outer=str(rng.choice(["construction", "sub"])))
            specs.append(s)
    # sessions on ONE instance: every accepted mask form, one mask buffer refilled in place, calls that raise in between
    n_sess = {"quick": 30, "thorough": 200}[tier]
    for kernel, w in (("ssb", 1), ("prlx", 1), ("icom", 1), ("obf", 2), ("mf", 2)):
        for r in range(n_sess * w):
            s = common(kernel)
            s.update(rel="session", submask=SUBMASKS[r % len(SUBMASKS)], family=FAMILIES[r % 3])
            specs.append(s)
    # equivalent spellings of one aberration set: key order, aliases, split between constructor and override
    n_spell = {"quick": 24, "thorough": 400}[tier]
    for kernel in KERNELS:
        for r in range(n_spell * (3 if kernel == "prlx" else 1)):
            s = common(kernel)
            s.update(rel="spelling", aberr=["astig", "third"][r % 2], submask=str(rng.choice(["none", "none"] + SUBMASKS)))
            if kernel == "prlx" and r % 3 == 0:
                s.update(aberr="astig", filters="none", closed=True)
            specs.append(s)
    for r in range(reps["closed_zero"]):
        s = common("prlx")
        s.update(rel="closed_zero", aberr="none", filters="none", up=[1, 1, 2, 3][r % 4], submask=str(rng.choice(["none"] + SUBMASKS)))
        specs.append(s)
    for r in range(reps["closed_aberr"]):
        s = common("prlx")
        s.update(rel="closed_aberr", aberr=["defocus", "astig", "astig"][r % 3], filters="none", up=[1, 1, 2, 3][r % 4], submask=str(rng.choice(["none", "none"] + SUBMASKS)))
        specs.append(s)
    order = rng.permutation(len(specs))  # mix relations over the shards
    return [specs[i] for i in order]


def setup(ctx):
    import gc

    import torch

    from quantem.core.datastructures import Dataset2d, Dataset3d
    from quantem.diffractive_imaging.direct_ptychography import DirectPtychography

    ctx.state.update(torch=torch, D2=Dataset2d, D3=Dataset3d, DP=DirectPtychography)
    gc.collect()
    gc.freeze()  # reconstruct() calls gc.collect() twice; keep those calls cheap (see ASSUMPTIONS)


# ------------------------------------------------------------------------------------------------
# scene


def _construction_mask(rng, crop):
    n0, n1 = int(rng.integers(7, 14)), int(rng.integers(7, 14))
    half = min((n0 - 1) // 2, (n1 - 1) // 2)  # >= 3
    if crop:
        # symmetric disc about DC; floor(r) + padding must stay on the detector so that cropping keeps DC at [0, 0]
        px = int(rng.integers(0, 3))
        r = float(rng.uniform(1.3, min(4.3, half - px + 0.95)))
    else:
        px = 1
        r = float(rng.uniform(1.3, min(4.3, half + 0.4)))
    I = ref.signed_index(n0)[:, None]
    J = ref.signed_index(n1)[None, :]
    ecc = float(rng.uniform(0.85, 1.0)) if rng.random() < 0.4 else 1.0
    m = (I / r) ** 2 + (J / (r * ecc)) ** 2 <= 1.0
    if not crop:
        # ragged, asymmetric construction mask (no cropping => any mask is admissible)
        drop = rng.random(m.shape) < rng.uniform(0.0, 0.25)
        drop[0, 0] = False
        m2 = m & ~drop
        if m2.sum() >= 5:
            m = m2
    return m, px, r


def _stack(rng, family, nbf, sx, sy):
    if family in ("random", "dead"):
        x = rng.normal(size=(nbf, sx, sy)) * rng.uniform(0.05, 0.5) + 1.0
        if family == "dead":
            # dead / saturated detector pixels: some virtual images are exactly flat (zero spectrum once the mean is removed)
            k = int(rng.integers(1, max(2, nbf // 3 + 1)))
            for i in rng.choice(nbf, size=min(k, nbf - 2), replace=False):
                x[i] = 0.0 if rng.random() < 0.6 else float(rng.uniform(0.5, 2.0))
            if rng.random() < 0.5:
                x[:2] = 0.0  # two adjacent flat images: a streamed batch made only of flat images for batch sizes 1 and 2
    elif family == "structured":
        u = np.arange(sx)[:, None] / sx
        v = np.arange(sy)[None, :] / sy
        x = np.ones((nbf, sx, sy))
        for _ in range(4):
            a, b = int(rng.integers(0, 4)), int(rng.integers(0, 4))
            x = x + rng.uniform(0.02, 0.2) * np.cos(2 * np.pi * (a * u + b * v) + rng.uniform(0, 6.28, size=(nbf, 1, 1)))
        x = x * rng.uniform(0.8, 1.2, size=(nbf, 1, 1))
        # broadband component: a stack made of a few +-q pairs can cancel completely in the real part taken by the
        # library (e.g. phase flipping with odd aberrations is anti-symmetric in q) and leave only rounding noise
        x = x + rng.normal(size=x.shape) * 0.04
    else:
        x = np.ones((nbf, sx, sy)) * rng.uniform(0.5, 2.0)
        for i in range(nbf):
            for _ in range(3):
                x[i, int(rng.integers(sx)), int(rng.integers(sy))] += rng.uniform(-0.4, 1.5)
    mean = x.mean(axis=(1, 2), keepdims=True)
    contrast = float(np.max(np.abs(x - mean)))
    rho = float(np.max(np.abs(x))) / max(contrast, 1e-300)
    if rho > 0.8 * RHO_MAX:
        x = mean + (x - mean) * (rho / (0.8 * RHO_MAX)) * 1.25
    return x


def _aberrations(rng, cls, lam, ka, alias):
    """coefficients scaled so that each term contributes 0.3..3 rad at the aperture edge."""
    amax = lam * ka

    def coef(n):
        return float(rng.choice([-1, 1]) * rng.uniform(0.3, 3.0) * (n + 1) * lam / (2 * np.pi * amax ** (n + 1)))

    canon = {}
    if cls in ("defocus", "astig", "third"):
        canon["C10"] = coef(1)
    if cls in ("astig", "third"):
        canon["C12"] = abs(coef(1))
        canon["phi12"] = float(rng.uniform(-np.pi / 2, np.pi / 2))
    if cls == "third":
        canon["C21"] = abs(coef(2))
        canon["phi21"] = float(rng.uniform(-np.pi, np.pi))
        canon["C23"] = abs(coef(2))
        canon["phi23"] = float(rng.uniform(-1, 1))
        canon["C30"] = coef(3)
    given = dict(canon)
    if alias and canon:
        given = {}
        for k, v in canon.items():
            if k == "C10":
                given["defocus"] = -v
            elif k == "C12":
                given["astigmatism"] = v
            elif k == "phi12":
                given["astigmatism_angle"] = v
            elif k == "C21":
                given["coma"] = v
            elif k == "phi21":
                given["coma_angle"] = v
            elif k == "C30":
                given["Cs"] = v
            else:
                given[k] = v
    # a dict has no meaningful order: hand the keys over in a random one (angles before magnitudes as often as after)
    keys = list(given)
    if rng.random() < 0.7:
        keys = [keys[t] for t in rng.permutation(len(keys))]
    given = {k: given[k] for k in keys}
    return canon, given


def _submask_pair(rng, M, cls):
    """complementary (A, B) with A | B == M, both non-empty."""
    n0, n1 = M.shape
    I = ref.signed_index(n0)[:, None] * np.ones((1, n1))
    J = ref.signed_index(n1)[None, :] * np.ones((n0, 1))
    if cls == "checkerboard":
        sel = ((I + J) % 2) == 0
    elif cls == "half_rows":
        sel = I >= (0 if rng.random() < 0.5 else 1)
    elif cls == "half_cols":
        sel = J < (0 if rng.random() < 0.5 else 1)
    else:
        sel = rng.random(M.shape) < rng.uniform(0.3, 0.7)
    A, B = M & sel, M & ~sel
    if A.sum() == 0 or B.sum() == 0:
        idx = np.flatnonzero(M.ravel())
        sel = np.zeros(M.size, bool)
        sel[idx[: max(1, len(idx) // 2)]] = True
        sel = sel.reshape(M.shape)
        A, B = M & sel, M & ~sel
    return A, B


class Scene:
    pass


def _scene(rng, spec, ctx):
    sc = Scene()
    sc.ctx, sc.kernel, sc.up = ctx, spec["kernel"], spec["up"]
    sc.crop = spec["crop"]
    sc.mask_in, sc.px, r = _construction_mask(rng, sc.crop)
    sc.nbf = int(sc.mask_in.sum())
    sc.scan = (int(rng.integers(5, 17)), int(rng.integers(5, 17)))
    sc.energy = float(ENERGIES[int(rng.integers(len(ENERGIES)))])
    sc.lam = ref.wavelength_A(sc.energy)
    dk = float(rng.uniform(0.01, 0.03))
    sc.dk = (dk, dk * (float(rng.uniform(0.8, 1.25)) if rng.random() < 0.5 else 1.0))
    ka = r * 0.5 * (sc.dk[0] + sc.dk[1])
    sc.semiangle = float(ka * sc.lam * 1e3 * rng.uniform(0.85, 1.15))
    f = rng.uniform(0.6, 2.2, size=2) * (1.0 if rng.random() < 0.5 else np.array([1.0, rng.uniform(0.8, 1.25)]))
    sc.ds = (float(1.0 / (2 * f[0] * ka)), float(1.0 / (2 * f[1] * ka)))
    sc.rotation = float(rng.uniform(-np.pi, np.pi)) if spec["rot"] else 0.0
    sc.canon, sc.given = _aberrations(rng, spec["aberr"], sc.lam, ka, alias=bool(rng.random() < 0.4))
    sc.mrad_units = bool(rng.random() < 0.3)
    sc.soft = True if spec["rel"] in ("recombine", "closed_zero", "closed_aberr", "session", "spelling") else bool(rng.random() < 0.75)
    sc.stack = _stack(rng, spec["family"], sc.nbf, *sc.scan)
    qn = 0.5 / max(sc.ds)
    sc.kw = {}
    if spec["filters"] in ("low", "both"):
        sc.kw["q_lowpass"] = float(qn * rng.uniform(0.4, 1.2))
    if spec["filters"] in ("high", "both"):
        sc.kw["q_highpass"] = float(qn * rng.uniform(0.05, 0.3))
    if spec["filters"] != "none" and rng.random() < 0.5:
        sc.kw["butterworth_order"] = int(rng.choice([2, 4]))
    if spec["kernel"] == "mf" and rng.random() < 0.5:
        sc.kw["matched_filter_norm_epsilon"] = float(10 ** rng.uniform(-3, 0))
    if spec["kernel"] == "prlx":
        # sign(sin(chi)) is identically 0 without aberrations: flipping then returns the zero image (trivial)
        sc.kw["parallax_flip_phase"] = False if (spec["rel"].startswith("closed") or spec.get("closed") or spec["aberr"] == "none") else bool(rng.random() < 0.5)
    sc.kw["deconvolution_kernel"] = spec["name"]
    sc.kw["upsampling_factor"] = spec["up"] if (spec["up"] > 1 or rng.random() < 0.5) else None
    sc.kw["verbose"] = False
    return sc


def _build(ctx, sc, stack):
    D2, D3, DP = ctx.state["D2"], ctx.state["D3"], ctx.state["DP"]
    vd = D3.from_array(np.asarray(stack, dtype=np.float32).copy(), name="vbf", units=("index", "A", "A"), sampling=(1, sc.ds[0], sc.ds[1]))
    if sc.mrad_units:
        md = D2.from_array(sc.mask_in.copy(), name="bf", units=("mrad", "mrad"), sampling=(sc.dk[0] * sc.lam * 1e3, sc.dk[1] * sc.lam * 1e3))
    else:
        md = D2.from_array(sc.mask_in.copy(), name="bf", units=("A^-1", "A^-1"), sampling=sc.dk)
    return DP.from_virtual_bfs(vd, md, energy=sc.energy, rotation_angle=sc.rotation, aberration_coefs=dict(sc.given), semiangle_cutoff=sc.semiangle, soft_edges=sc.soft, crop_bf_mask=sc.crop, bf_mask_padding_px=sc.px, rng=0, verbose=0)


def _recon(dp, sc, bf_mask=None, batch=None):
    dp.reconstruct(bf_mask=None if bf_mask is None else bf_mask.copy(), max_batch_size=batch, **sc.kw)
    st = dp.corrected_stack.detach().cpu().numpy().astype(np.float64)
    bf = dp.corrected_bf.detach().cpu().numpy().astype(np.float64)
    ctx = sc.ctx
    ctx.check(bool(np.isfinite(st).all()), "non_finite_result", lambda: "corrected_stack holds %d non-finite values (kernel=%s max_batch_size=%r)" % (int((~np.isfinite(st)).sum()), sc.kw["deconvolution_kernel"], batch), kernel=sc.kernel, upsampling=sc.up)
    return st, bf


def _m(x):
    return float(np.max(np.abs(x))) if np.size(x) else 0.0


def _natural(dp, sc, bf_mask, st, bf):
    """Magnitude the float32 rounding noise scales with: the Butterworth envelope (<= 1) is applied after the
    FFTs and kernel factors, so a filter that removes (nearly) all signal leaves a result far below the noise of
    its un-filtered counterpart. Returns (max|stack|, max|bf|) of the larger of the filtered and un-filtered runs."""
    if not any(k.startswith("q_") for k in sc.kw):
        return _m(st), _m(bf)
    kw = sc.kw
    sc.kw = {k: v for k, v in kw.items() if not k.startswith("q_")}
    try:
        st2, bf2 = _recon(dp, sc, bf_mask, None)
    finally:
        sc.kw = kw
    return max(_m(st), _m(st2)), max(_m(bf), _m(bf2))


def _lib_mask(dp):
    return dp.bf_mask.detach().cpu().numpy().astype(bool)


def _pick_submask(rng, M, cls):
    if cls == "none":
        return None
    A, B = _submask_pair(rng, M, cls)
    return A if A.sum() >= B.sum() else B


def _batch_sizes(tier, n, rng):
    if tier == "thorough" or n <= 24:
        return list(range(1, n + 1))
    primes = [p for p in (5, 7, 11, 13, 17, 19, 23, 29, 31, 37) if p < n]
    s = {1, 2, 3, n - 1, n, int(rng.choice(primes)), int(rng.integers(4, n - 1))}
    return sorted(x for x in s if 1 <= x <= n)


def _fields(spec, sc, **extra):
    d = dict(kernel=spec["kernel"], upsampling=spec["up"], aberr=spec["aberr"], crop=sc.crop, submask=spec.get("submask", "none"), filters=spec["filters"], rotated=bool(sc.rotation != 0.0))
    d.update(extra)
    return d

# ------------------------------------------------------------------------------------------------
# sessions: many calls on ONE instance. The result of a call must be a function of the *contents* of its arguments only:
# not of the container / dtype of the mask, not of the identity of a mask buffer that is refilled in place, not of calls
# that raised in between. Every call is judged against a fresh instance that saw a fresh bool copy of the same mask.

MASK_FORMS = ["np_bool", "np_uint8", "np_int64", "np_float32", "np_float64", "np_fortran", "np_view", "t_bool", "t_uint8", "t_int32", "t_int64", "t_float32", "t_float64", "t_noncontig", "list_bool", "list_int"]  # all accepted and bitwise equivalent on the unchanged tree (probed)


def _mask_form(torch, A, form):
    if form == "np_bool":
        return A.copy()
    if form == "np_fortran":
        return np.asfortranarray(A)
    if form == "np_view":
        return np.concatenate([A, ~A], 1)[:, : A.shape[1]]
    if form == "t_noncontig":
        return torch.tensor(np.concatenate([A, ~A], 1))[:, : A.shape[1]]
    if form == "list_bool":
        return A.tolist()
    if form == "list_int":
        return A.astype(int).tolist()
    kind, dt = form.split("_")
    dt = {"bool": np.bool_, "uint8": np.uint8, "int32": np.int32, "int64": np.int64, "float32": np.float32, "float64": np.float64}[dt]
    arr = A.astype(dt)
    return arr if kind == "np" else torch.tensor(arr)


def _as_np(x):
    return np.asarray(x.detach().cpu().numpy() if hasattr(x, "detach") else x)


ERRORS = ["mf_eps_none", "mf_eps_str", "superset_small_batch", "superset", "unknown_kernel", "lowpass_str", "batch_zero", "wrong_shape_mask", "butterworth_order_none", "upsampling_str"]


def _error_call(rng, name, sc, M, A):
    """(mask, kwargs) of a call that raises on the unchanged tree (probed); same upsampling => same grid / buffers."""
    kw = dict(sc.kw)
    mask = A.copy()
    if name.startswith("superset") and M.all():
        name = "mf_eps_none"  # the (cropped) construction mask fills its array: there is no pixel outside it
    if name.startswith("mf_eps"):
        kw.update(deconvolution_kernel=["mf", "matched-filter"][int(rng.integers(2))], matched_filter_norm_epsilon=None if name == "mf_eps_none" else "0.1")
        kw.pop("parallax_flip_phase", None)
        if rng.random() < 0.5:
            mask = None
    elif name.startswith("superset"):
        out = np.argwhere(~M)
        k = out[int(rng.integers(len(out)))]
        mask[tuple(k)] = True  # one pixel outside the construction mask: the stack has no image for it
        kw["max_batch_size"] = int(rng.integers(1, 3)) if name == "superset_small_batch" else None
    elif name == "unknown_kernel":
        kw["deconvolution_kernel"] = "no-such-kernel"
    elif name == "lowpass_str":
        kw["q_lowpass"] = "0.1"
    elif name == "batch_zero":
        kw["max_batch_size"] = 0
    elif name == "wrong_shape_mask":
        mask = np.ones((M.shape[0] + 1, M.shape[1]), dtype=bool)
    elif name == "butterworth_order_none":
        kw.update(q_lowpass=kw.get("q_lowpass", 0.5 / max(sc.ds)), butterworth_order=None)
    else:
        kw["upsampling_factor"] = "2"
    return mask, kw


def _run_session(spec, idx, ctx, rng, sc, dp, M, sig, obs):
    torch = ctx.state["torch"]
    A, B = _submask_pair(rng, M, spec["submask"])
    fresh_cache = {}

    def fresh(mask):
        key = None if mask is None else mask.tobytes()
        if key not in fresh_cache:
            d2 = _build(ctx, sc, sc.stack)
            st, bf = _recon(d2, sc, mask, None)
            fresh_cache[key] = (st, bf, _natural(d2, sc, mask, st, bf))
        return fresh_cache[key]

    def call(mask_obj, kw=None, batch=None):
        k = dict(sc.kw if kw is None else kw)
        k.setdefault("max_batch_size", batch)
        dp.reconstruct(bf_mask=mask_obj, **k)
        return dp.corrected_stack.detach().cpu().numpy().astype(np.float64)

    stA, bfA, natA = fresh(A)
    scaleA = natA[0]
    if not scaleA > 0:
        ctx.count("note:zero_result")
        ctx.nontrivial(sig, False)
        return
    F = lambda **e: _fields(spec, sc, **e)
    bsz = lambda m: [None, int(rng.integers(1, int(m.sum()) + 1))][int(rng.integers(2))]

    # ---- 1. every accepted form of the mask argument ------------------------------------------------
    forms = list(MASK_FORMS)
    rng.shuffle(forms)
    for form in forms:
        obj = _mask_form(torch, A, form)
        keep = np.array(_as_np(obj), copy=True) if not isinstance(obj, list) else [list(r) for r in obj]
        try:
            st = call(obj, batch=bsz(A))
        except Exception as e:  # noqa: BLE001  (accepted on the unchanged tree)
            ctx.check(False, "mask_form_dependence", "reconstruct(bf_mask=<%s>) raised %s: %s" % (form, type(e).__name__, str(e)[:200]), **F(form=form, outcome="raised", exc_type=type(e).__name__))
            continue
        if ctx.check(st.shape == stA.shape, "mask_form_dependence", "bf_mask given as %s: corrected_stack shape %s, bool mask gives %s" % (form, st.shape, stA.shape), **F(form=form, outcome="shape")):
            ctx.close(_m(st - stA) / scaleA, TOL_SESSION, "mask_form_dependence", lambda: "bf_mask given as %s gives another result than the same mask as a bool array on a fresh instance" % form, **F(form=form, outcome="value"))
        same = (obj == keep) if isinstance(obj, list) else np.array_equal(_as_np(obj), keep)
        ctx.check(bool(same), "mask_argument_modified", "reconstruct modified the bf_mask argument (%s)" % form, **F(form=form))
    stN = call(None, batch=bsz(M))
    stM, bfM, natM = fresh(M)
    if stN.shape == stM.shape and natM[0] > 0:
        ctx.close(_m(stN - stM) / natM[0], TOL_SESSION, "mask_form_dependence", "bf_mask=None differs from the construction mask passed explicitly", **F(form="none", outcome="value"))

    # ---- 2. one mask buffer refilled in place and passed as the same object -----------------------------
    W = lambda mask: ref.aperture_weight(mask, sc.dk, sc.rotation, sc.lam, sc.semiangle)
    for container in ("numpy", "torch"):
        buf = np.zeros(M.shape, dtype=bool) if container == "numpy" else torch.zeros(M.shape, dtype=torch.bool)
        got = {}
        seq = [("A", A), ("B", B), ("A", A), ("M", M), ("B", B)]
        for step, (nm, content) in enumerate(seq):
            if container == "numpy":
                buf[...] = content
            else:
                buf.copy_(torch.from_numpy(content.copy()))
            stF, bfF, natF = fresh(content)
            try:
                st = call(buf, batch=bsz(content))
            except Exception as e:  # noqa: BLE001  (a fresh copy of the same mask is accepted)
                ctx.check(False, "mask_buffer_reuse", "step %d (%s): reconstruct raised %s: %s with a %s mask object refilled in place" % (step, nm, type(e).__name__, str(e)[:200], container), **F(container=container, step=step, outcome="raised", exc_type=type(e).__name__))
                continue
            if natF[0] > 0 and ctx.check(st.shape == stF.shape, "mask_buffer_reuse", "step %d (%s): corrected_stack shape %s, fresh instance gives %s" % (step, nm, st.shape, stF.shape), **F(container=container, step=step, outcome="shape")):
                ctx.close(_m(st - stF) / natF[0], TOL_SESSION, "mask_buffer_reuse", lambda: "the same %s mask object refilled in place (step %d, contents %s) gives another result than a fresh instance with a fresh copy" % (container, step, nm), **F(container=container, step=step, outcome="value"))
            ctx.check(np.array_equal(_as_np(buf), content), "mask_argument_modified", "reconstruct modified the mask buffer (%s)" % container, **F(form=container + "_buffer"))
            got[nm] = st.sum(0)
        if spec["kernel"] in SINGLE_PASS and all(k in got for k in "ABM"):
            WA, WB, WM = W(A), W(B), W(M)
            scale = max(WM * max(natM), WA * natA[0], WB * fresh(B)[2][0])
            if min(WA, WB) > 1e-6 * WM and scale > 0 and got["A"].shape == got["M"].shape:
                ctx.close(_m(WA * got["A"] + WB * got["B"] - WM * got["M"]) / scale, TOL_RECOMB, "recombination", lambda: "W_A R_A + W_B R_B != W R with one %s mask buffer refilled in place" % container, **F(outer="buffer_reuse"))

    # ---- 3. calls that raise in between ---------------------------------------------------------------------
    use = A if rng.random() < 0.7 else None
    stU = stA if use is not None else stM
    scaleU = scaleA if use is not None else natM[0]
    names = ["mf_eps_none", "mf_eps_str", "superset_small_batch"] + [ERRORS[int(rng.integers(len(ERRORS)))] for _ in range(2)]
    rng.shuffle(names)
    raised = 0
    for name in names:
        if not scaleU > 0:
            break
        before = call(None if use is None else use.copy(), batch=bsz(M if use is None else use))
        emask, ekw = _error_call(rng, name, sc, M, A)
        try:
            dp.reconstruct(bf_mask=emask, **ekw)
            ctx.count("note:error_call_did_not_raise:" + name)
            continue
        except Exception as e:  # noqa: BLE001
            raised += 1
            ctx.count("error_call_raised:%s:%s" % (name, type(e).__name__))
        kept = dp.corrected_stack.detach().cpu().numpy().astype(np.float64)
        ctx.check(kept.shape == before.shape and np.array_equal(kept, before), "state_after_error", "corrected_stack changed although reconstruct raised (%s)" % name, **F(error=name))
        for nth in (1, 2):
            st = call(None if use is None else use.copy(), batch=bsz(M if use is None else use))
            if ctx.check(st.shape == stU.shape, "after_error_dependence", "call %d after a raising call (%s): shape %s vs %s" % (nth, name, st.shape, stU.shape), **F(error=name, nth=nth, outcome="shape")):
                ctx.close(max(_m(st - stU), _m(st - before)) / scaleU, TOL_SESSION, "after_error_dependence", lambda: "call %d after a reconstruct() that raised (%s) differs from the same call before it / on a fresh instance" % (nth, name), **F(error=name, nth=nth, outcome="value"))
    var = float(np.asarray(sc.stack, dtype=np.float64).var())
    ctx.nontrivial(sig, var > 0 and sc.nbf >= 5 and raised >= 1)
    ctx.observe(forms=len(MASK_FORMS) + 1, buffer_steps=10, error_calls=names, raised=raised, nA=int(A.sum()), nB=int(B.sum()), **obs)


# ------------------------------------------------------------------------------------------------
# equivalent spellings of the same hyper-parameters: the aberration set is a mapping, so its key order, the use of aliases
# ('defocus' = -C10, 'astigmatism', 'astigmatism_angle', 'coma', 'coma_angle', 'Cs') and the split between the constructor's
# aberration_coefs and reconstruct(override_aberration_coefs=...) must not change the reconstruction.

_ALIAS = {"C10": ("defocus", -1.0), "C12": ("astigmatism", 1.0), "phi12": ("astigmatism_angle", 1.0), "C21": ("coma", 1.0), "phi21": ("coma_angle", 1.0), "C30": ("Cs", 1.0)}


def _spell(rng, canon, order, alias):
    keys = list(canon)
    ang = [k for k in keys if k.startswith("phi")]
    mag = [k for k in keys if not k.startswith("phi")]
    if order == "magnitude_first":
        keys = mag + ang
    elif order == "angle_first":
        keys = ang + mag
    elif order == "reversed":
        keys = keys[::-1]
    else:
        keys = [keys[t] for t in rng.permutation(len(keys))]
    out = {}
    for k in keys:
        if alias and k in _ALIAS and rng.random() < 0.8:
            name, sign = _ALIAS[k]
            out[name] = sign * canon[k]
        else:
            out[k] = canon[k]
    return out


def _run_spelling(spec, idx, ctx, rng, sc, M, sig, obs):
    canon = dict(sc.canon)
    sub = _pick_submask(rng, M, spec["submask"])
    keep_given = sc.given

    def run(given, override=None, batch=None):
        sc.given = given
        try:
            d = _build(ctx, sc, sc.stack)
        finally:
            sc.given = keep_given
        kw = sc.kw
        if override is not None:
            sc.kw = dict(kw, override_aberration_coefs=override)
        try:
            st, bf = _recon(d, sc, sub, batch)
        finally:
            sc.kw = kw
        return d, st, bf

    ordered = {k: canon[k] for k in sorted(canon, key=lambda k: (k.startswith("phi"), k))}  # magnitudes first, canonical symbols
    d0, st0, bf0 = run(ordered)
    scale = _natural(d0, sc, sub, st0, bf0)[0]
    if not scale > 0:
        ctx.count("note:zero_result")
        ctx.nontrivial(sig, False)
        return
    angles = [k for k in canon if k.startswith("phi")]
    wrong = dict(canon)
    for k in angles:
        wrong[k] = canon[k] + float(rng.uniform(0.4, 1.2))
    variants = []
    for order in ("angle_first", "reversed", "random"):
        for alias in (False, True):
            variants.append(("ctor:%s:%s" % (order, "alias" if alias else "symbols"), _spell(rng, canon, order, alias), None))
    variants.append(("override_all:angle_first", {}, _spell(rng, canon, "angle_first", False)))
    variants.append(("override_all:alias_angle_first", {}, _spell(rng, canon, "angle_first", True)))
    variants.append(("override_all_on_other_state:random", _spell(rng, wrong, "random", False), _spell(rng, canon, "random", bool(rng.random() < 0.5))))
    variants.append(("override_angles_only", _spell(rng, wrong, "magnitude_first", False), {k: canon[k] for k in angles}))
    variants.append(("override_angles_only:alias", _spell(rng, wrong, "random", True), {_ALIAS.get(k, (k, 1.0))[0]: canon[k] for k in angles}))
    variants.append(("override_magnitudes_only", _spell(rng, {k: (v if k.startswith("phi") else 0.5 * v) for k, v in canon.items()}, "angle_first", False), {k: v for k, v in canon.items() if not k.startswith("phi")}))
    variants.append(("override_empty", _spell(rng, canon, "random", False), {}))
    n = sc.nbf if sub is None else int(sub.sum())
    for name, given, override in variants:
        b = [None, int(rng.integers(1, n + 1))][int(rng.integers(2))]
        d, st, bf = run(given, override, b)
        if ctx.check(st.shape == st0.shape, "aberration_spelling_dependence", "%s: corrected_stack shape %s vs %s" % (name, st.shape, st0.shape), **_fields(spec, sc, spelling=name.split(":")[0], outcome="shape")):
            ctx.close(_m(st - st0) / scale, TOL_SESSION, "aberration_spelling_dependence", lambda: "the same aberration set spelled as %s (aberration_coefs=%r, override_aberration_coefs=%r) reconstructs differently from %r" % (name, given, override, ordered), **_fields(spec, sc, spelling=name.split(":")[0], variant=name, outcome="value"))
    # wrong angles must matter (otherwise the relation above is vacuous)
    dw, stw, bfw = run(_spell(rng, wrong, "magnitude_first", False))
    sens = _m(stw - st0) / scale
    obs["angle_sensitivity"] = sens
    # closed form (prlx, no flipping, no filters) for an angle-first spelling
    if spec.get("closed") and spec["kernel"] == "prlx":
        used = M if sub is None else sub
        flat_M = np.flatnonzero(M.ravel())
        sub_index = np.searchsorted(flat_M, np.flatnonzero(used.ravel()))
        kx, ky = ref.mask_k(M, sc.dk, sc.rotation)
        kxi, kyi = kx[used], ky[used]
        Wt = ref.aperture_weight(used, sc.dk, sc.rotation, sc.lam, sc.semiangle)
        shifts = ref.geometric_shifts(kxi, kyi, sc.lam, canon.get("C10", 0.0), canon.get("C12", 0.0), canon.get("phi12", 0.0))
        exp_bf, exp_st = ref.parallax_closed_form(np.asarray(sc.stack, dtype=np.float32), sub_index, kxi, kyi, shifts, sc.ds, spec["up"], Wt)
        d, st, bf = run({}, _spell(rng, canon, "angle_first", bool(rng.random() < 0.5)))
        sc2 = max(_m(exp_st), _m(exp_bf))
        if sc2 > 0 and bf.shape == exp_bf.shape:
            ctx.close(_m(bf - exp_bf) / sc2, TOL_CLOSED, "closed_form_defocus_astigmatism", "corrected_bf != closed form when the aberrations are given angle-first through override_aberration_coefs", **_fields(spec, sc, spelling="override_all"))
    var = float(np.asarray(sc.stack, dtype=np.float64).var())
    ctx.nontrivial(sig, var > 0 and sc.nbf >= 5 and sens > 100 * TOL_SESSION)
    ctx.observe(variants=len(variants), canon=canon, **obs)


def run_case(spec, idx, ctx):
    rng = ctx.rng(idx)
    sc = _scene(rng, spec, ctx)
    rel = spec["rel"]
    dp = _build(ctx, sc, sc.stack)
    M = _lib_mask(dp)  # construction mask as held by the library (cropped or not), corner-centred
    ctx.check(int(M.sum()) == sc.nbf and dp.num_bf == sc.nbf, "mask_pixels_lost", "construction mask has %d pixels, library holds %d (num_bf=%d)" % (sc.nbf, int(M.sum()), dp.num_bf), crop=sc.crop)
    if int(M.sum()) != sc.nbf:
        return
    stack32 = np.asarray(sc.stack, dtype=np.float32)
    var = float(stack32.astype(np.float64).var())
    sig = (rel, spec["kernel"], spec["up"], spec.get("submask", "none"), spec["aberr"])
    obs = dict(rel=rel, kernel=spec["name"], num_bf=sc.nbf, scan=sc.scan, det=sc.mask_in.shape, crop=sc.crop, up=spec["up"], aberr=sc.given, rotation=sc.rotation, semiangle=sc.semiangle, soft=sc.soft, filters={k: v for k, v in sc.kw.items() if k.startswith("q_")})

    if rel == "spelling":
        _run_spelling(spec, idx, ctx, rng, sc, M, sig, obs)
        return

    if rel == "session":
        _run_session(spec, idx, ctx, rng, sc, dp, M, sig, obs)
        return

    if rel == "batch":
        sub = _pick_submask(rng, M, spec["submask"])
        n = sc.nbf if sub is None else int(sub.sum())
        st0, bf0 = _recon(dp, sc, sub, None)
        scale = _natural(dp, sc, sub, st0, bf0)[0]
        sizes = _batch_sizes(ctx.tier, n, rng)
        worst, nb = 0.0, 0
        if scale > 0:
            for b in sizes + [n + 3]:
                st, bf = _recon(dp, sc, sub, b)
                if not ctx.check(st.shape == st0.shape, "shape_changed", "corrected_stack shape %s vs %s at max_batch_size=%d" % (st.shape, st0.shape, b), **_fields(spec, sc)):
                    continue
                res = _m(st - st0) / scale
                worst = max(worst, res)
                nb += 1
                ctx.close(res, TOL_BATCH, "batch_invariance", lambda: "corrected_stack differs between max_batch_size=%d and the un-batched run (num_bf=%d)" % (b, n), **_fields(spec, sc, batch_class="1" if b == 1 else "n" if b == n else "gt_n" if b > n else "mid"))
            # history: the result is a function of the stack, the mask and the hyper-parameters of *this* call only - calls made in
            # between on the same instance with other hyper-parameters (overrides, another kernel, another sub-mask) must not leak
            if idx % 2 == 0:
                kw0 = sc.kw
                ov = {"C10": float(rng.uniform(-300, 300)), "C12": float(rng.uniform(0, 150)), "phi12": float(rng.uniform(0, 3.0))}
                other = dict(kw0, deconvolution_kernel=["parallax", "ssb", "icom", "obf"][int(rng.integers(4))], override_aberration_coefs=ov, override_rotation_angle=float(rng.uniform(-0.5, 0.5)))
                other.pop("q_highpass", None)
                sc.kw = other
                try:
                    _recon(dp, sc, _pick_submask(rng, M, "halves"), int(rng.integers(1, n + 1)))
                finally:
                    sc.kw = kw0
                st, bf = _recon(dp, sc, sub, None)
                if st.shape == st0.shape:
                    ctx.close(_m(st - st0) / scale, TOL_BATCH, "history_dependence", lambda: "the same reconstruct() call gives another result after an intermediate call with overrides %r" % (ov,), **_fields(spec, sc, batch_class="history"))
        else:
            ctx.count("note:zero_result")
        ctx.nontrivial(sig, var > 0 and n >= 5 and scale > 0 and nb >= 2)
        ctx.observe(batch_sizes=len(sizes) + 1, worst=worst, scale=scale, **obs)
        return

    if rel == "linear":
        sub = _pick_submask(rng, M, spec["submask"])
        Y = _stack(rng, FAMILIES[int(rng.integers(len(FAMILIES)))], sc.nbf, *sc.scan)
        a, b = float(rng.uniform(-2, 2)), float(rng.uniform(-2, 2))
        X32 = stack32.astype(np.float64)
        Y32 = np.asarray(Y, dtype=np.float32).astype(np.float64)
        bsz = [None, int(rng.integers(1, sc.nbf + 1))]
        rx, bx = _recon(dp, sc, sub, bsz[int(rng.integers(2))])
        dpy = _build(ctx, sc, Y32)
        ry, by = _recon(dpy, sc, sub, bsz[int(rng.integers(2))])
        rz, _ = _recon(_build(ctx, sc, a * X32 + b * Y32), sc, sub, bsz[int(rng.integers(2))])
        scale = max(_natural(dp, sc, sub, rx, bx)[0] * abs(a), _natural(dpy, sc, sub, ry, by)[0] * abs(b), _m(rz))
        if scale > 0:
            ctx.close(_m(rz - (a * rx + b * ry)) / scale, TOL_LIN, "linearity", lambda: "R(aX+bY) != aR(X)+bR(Y) (a=%.3f b=%.3f)" % (a, b), **_fields(spec, sc))
        else:
            ctx.count("note:zero_result")
        ctx.nontrivial(sig, var > 0 and sc.nbf >= 5 and scale > 0)
        ctx.observe(a=a, b=b, scale=scale, **obs)
        return

    # weights recomputed in the harness
    def W(mask):
        return ref.aperture_weight(mask, sc.dk, sc.rotation, sc.lam, sc.semiangle)

    if rel == "recombine":
        if spec["outer"] == "construction":
            outer, outer_arg = M, None
        else:
            A0, B0 = _submask_pair(rng, M, "random")
            outer = A0 if A0.sum() >= B0.sum() else B0
            if outer.sum() < 2:
                outer = M
            outer_arg = outer
        A, B = _submask_pair(rng, outer, spec["submask"])
        WA, WB, WM = W(A), W(B), W(outer)
        if min(WA, WB) <= 1e-6 * WM:
            ctx.count("note:submask_without_weight")
            ctx.nontrivial(sig, False)
            return
        bs = lambda m: [None, int(rng.integers(1, int(m.sum()) + 1))][int(rng.integers(2))]
        stM, bfM = _recon(dp, sc, outer_arg, bs(outer))
        stA, bfA = _recon(dp, sc, A, bs(A))
        stB, bfB = _recon(dp, sc, B, bs(B))
        scale = max(WM * max(_natural(dp, sc, outer_arg, stM, bfM)), WA * _natural(dp, sc, A, stA, bfA)[0], WB * _natural(dp, sc, B, stB, bfB)[0])
        judged = spec["kernel"] in SINGLE_PASS
        if scale > 0:
            res = _m(WA * bfA + WB * bfB - WM * bfM) / scale
            if judged:
                ctx.close(res, TOL_RECOMB, "recombination", lambda: "W_A R_A + W_B R_B != W R (W_A=%.4f W_B=%.4f W=%.4f)" % (WA, WB, WM), **_fields(spec, sc, outer=spec["outer"]))
            else:
                ctx.count("control:two_pass_recombination_differs" if res > TOL_RECOMB else "control:two_pass_recombination_equal")
                obs["control_residual"] = res
        else:
            ctx.count("note:zero_result")
        ctx.nontrivial(sig, judged and var > 0 and sc.nbf >= 5 and scale > 0)
        ctx.observe(WA=WA, WB=WB, W=WM, nA=int(A.sum()), nB=int(B.sum()), scale=scale, **obs)
        return

    # ---- closed forms (prlx, no flipping, no filters) ---------------------------------------------
    sub = _pick_submask(rng, M, spec["submask"])
    used = M if sub is None else sub
    flat_M = np.flatnonzero(M.ravel())
    sub_index = np.searchsorted(flat_M, np.flatnonzero(used.ravel()))  # image index of every used pixel
    kx, ky = ref.mask_k(M, sc.dk, sc.rotation)
    kxi, kyi = kx[used], ky[used]
    Wt = W(used)
    if rel == "closed_zero":
        shifts = (np.zeros_like(kxi), np.zeros_like(kyi))
        mech = "closed_form_zero_aberration"
    else:
        shifts = ref.geometric_shifts(kxi, kyi, sc.lam, sc.canon.get("C10", 0.0), sc.canon.get("C12", 0.0), sc.canon.get("phi12", 0.0))
        mech = "closed_form_defocus_astigmatism"
    exp_bf, exp_st = ref.parallax_closed_form(stack32, sub_index, kxi, kyi, shifts, sc.ds, spec["up"], Wt)
    n = int(used.sum())
    st, bf = _recon(dp, sc, sub, [None, int(rng.integers(1, n + 1))][int(rng.integers(2))])
    scale = max(_m(exp_st), _m(exp_bf))
    if ctx.check(bf.shape == exp_bf.shape, "shape_changed", "corrected_bf shape %s, expected %s" % (bf.shape, exp_bf.shape), **_fields(spec, sc)) and scale > 0:
        res = _m(bf - exp_bf) / scale

        def detail():
            # which way is it off? (classification only)
            alt_bf, _ = ref.parallax_closed_form(stack32, sub_index, kxi, kyi, (-shifts[0], -shifts[1]), sc.ds, spec["up"], Wt)
            n_bf, _ = ref.parallax_closed_form(stack32, sub_index, kxi, kyi, shifts, sc.ds, spec["up"], float(n))
            return "corrected_bf != closed form (W=%.4f num_bf=%d; residual with opposite shift sign %.2e, with W:=num_bf %.2e)" % (Wt, n, _m(bf - alt_bf) / scale, _m(bf - n_bf) / scale)

        ctx.close(res, TOL_CLOSED, mech, detail, **_fields(spec, sc))
        if rel == "closed_aberr":
            # the oracle discriminates: the opposite translation sign must NOT fit
            alt_bf, _ = ref.parallax_closed_form(stack32, sub_index, kxi, kyi, (-shifts[0], -shifts[1]), sc.ds, spec["up"], Wt)
            obs["opposite_sign_residual"] = _m(bf - alt_bf) / scale
    maxshift_px = float(np.max(np.hypot(shifts[0] / sc.ds[0], shifts[1] / sc.ds[1]))) if n else 0.0
    ctx.nontrivial(sig, var > 0 and n >= 5 and scale > 0 and (rel == "closed_zero" or maxshift_px > 0.2))
    ctx.observe(W=Wt, n_used=n, max_shift_px=maxshift_px, scale=scale, **obs)


def summarize(all_cases, counters, extras):
    import collections
    import json

    per = collections.Counter()
    names = set()
    for c in all_cases:
        if c.get("nontrivial") and c.get("sig"):
            try:
                sig = json.loads(c["sig"])
                per["%s/%s" % (sig[0], sig[1])] += 1
            except Exception:
                pass
        k = (c.get("obs") or {}).get("kernel")
        if k:
            names.add(k)
    return {
        "nontrivial_cases_per_relation_and_kernel": dict(sorted(per.items())),
        "kernel_names_and_aliases_used": sorted(names),
        "tolerances_relative": {"batch": TOL_BATCH, "linearity": TOL_LIN, "recombination": TOL_RECOMB, "closed_forms": TOL_CLOSED},
        "negative_control_two_pass_recombination": {"differs": counters.get("control:two_pass_recombination_differs", 0), "equal": counters.get("control:two_pass_recombination_equal", 0)},
    }
