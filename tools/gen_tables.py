#!/venv/bin/python
"""Rewrites the block between the BEGIN/END AUTO-TABLES markers in DESIGN.md from selftest/ and seeded/ (run from /verif)."""
import glob, json, os, re

HERE = os.path.dirname(os.path.dirname(os.path.abspath(__file__)))
out = ["<!-- BEGIN AUTO-TABLES (tools/gen_tables.py) -->", "",
       "### 8.5 Self-test mutants per check (each is DETECTED by `selftest/run.sh <Cxx> <patch>` on the quick tier)", "",
       "| Check | # | Mutants (selftest/<Cxx>/*.diff) |", "|---|---|---|"]
for d in sorted(glob.glob(os.path.join(HERE, "selftest", "C*"))):
    names = sorted(os.path.basename(f)[:-5] for f in glob.glob(os.path.join(d, "*.diff")))
    out.append("| %s | %d | %s |" % (os.path.basename(d), len(names), ", ".join(names)))
out += ["", "### 8.6 Seeded changes from independent sub-agents (property text + scratch worktree only) and which check catches them", "",
        "Each was confirmed on a scratch copy of /repo (demo passes without / fails with the patch, repository tests still 176 passed) and then",
        "the property's quick check was run against it (`tools/try_seed.sh`).", "",
        "| Seed | Change | Needs to manifest | Verdict of the check |", "|---|---|---|---|"]
n = det = first = 0
for d in sorted(glob.glob(os.path.join(HERE, "seeded", "C*"))):
    try:
        m = json.load(open(os.path.join(d, "meta.json")))
    except Exception:
        continue
    v = m.get("verif", {})
    need = str(m.get("needs_to_manifest", ""))
    clean = lambda t: re.sub(r"\s+", " ", str(t)).replace("|", "/")
    verdict = v.get("verdict", "not tried yet")
    n += 1
    det += "DETECTED" in verdict
    first += verdict.startswith("DETECTED")
    out.append("| %s | %s | %s | %s |" % (os.path.basename(d), clean(v.get("what") or m.get("summary", ""))[:260], clean(need)[:220], clean(verdict)[:330]))
ev_rows = []
for f in sorted(glob.glob(os.path.join(HERE, "evidence", "C*.json"))):
    try:
        e = json.load(open(f))
        c = e["coverage"]
        worst = ""
        wr = {k: v for k, v in (c.get("worst_residuals") or {}).items() if "known finding" not in k}
        if wr:
            k = max(wr, key=lambda k: (wr[k]["worst"] / wr[k]["bound"]) if wr[k]["bound"] else 0)
            worst = "%s %.1e / %.0e" % (k[:40], wr[k]["worst"], wr[k]["bound"])
        ev_rows.append("| %s | %s | %d | %d | %d | %d | %.0f | %s |" % (e["property_id"], e["tier"], c["evaluations"], c["distinct_nontrivial"], c.get("monitor_evaluations", 0), len(c.get("reached_functions", [])), e["wall_s"], worst))
    except Exception as ex:  # noqa: BLE001
        ev_rows.append("| %s | unreadable: %s |" % (os.path.basename(f), ex))
out += ["", "### 8.7 Committed evidence at a glance (evidence/<id>.json, written by the checks themselves)", "",
        "| Check | tier | cases | distinct non-trivial | monitor evaluations | anchored functions reached | wall s | residual closest to its bound (worst / bound) |", "|---|---|---|---|---|---|---|---|"] + ev_rows
out += ["", "Totals: %d seeded changes, %d detected by the first version of the check, %d detected after strengthening, %d not detected." % (n, first, det - first, n - det),
        "", "<!-- END AUTO-TABLES -->"]
p = os.path.join(HERE, "DESIGN.md")
s = open(p).read()
block = "\n".join(out)
if "<!-- BEGIN AUTO-TABLES" in s:
    s = re.sub(r"<!-- BEGIN AUTO-TABLES.*?<!-- END AUTO-TABLES -->", lambda _m: block, s, flags=re.S)
else:
    s = s.rstrip("\n") + "\n\n" + block + "\n"
open(p, "w").write(s)
print("tables written: %d mutant dirs, %d seeds (%d first-version, %d after strengthening)" % (len(glob.glob(os.path.join(HERE, "selftest", "C*"))), n, first, det - first))
