#!/venv/bin/python
"""tools/set_verdict.py <Cxx-N> <round> <what> <verdict>  — records my confirmation of a seeded change in seeded/<Cxx-N>/meta.json["verif"]."""
import json, os, sys
HERE = os.path.dirname(os.path.dirname(os.path.abspath(__file__)))
sid, rnd, what, verdict = sys.argv[1:5]
p = os.path.join(HERE, "seeded", sid, "meta.json")
m = json.load(open(p))
m["verif"] = {"round": int(rnd), "confirmed": "demo exits 0 on the unchanged tree and 1 with the patch; repository tests 176 passed with the patch (tools/try_seed.sh on a scratch copy of /repo)",
              "what": what, "check": sid.split("-")[0], "verdict": verdict, "ran": "tools/try_seed.sh %s seeded/%s" % (sid.split("-")[0], sid)}
json.dump(m, open(p, "w"), indent=1)
