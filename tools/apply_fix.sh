#!/bin/bash
# tools/apply_fix.sh <fix-basename>  — applies fixes/<name>.diff to /repo and commits it with fixes/<name>.msg
# (a one-paragraph message is split into subject = first sentence, body = wrapped rest)
set -e
HERE="$(cd "$(dirname "${BASH_SOURCE[0]}")/.." && pwd)"
f="$HERE/fixes/$1"
git -C /repo apply --check "$f.diff"
git -C /repo apply "$f.diff"
/venv/bin/python - "$f.msg" > /tmp/fixmsg.$$ <<'PY'
import sys, textwrap
t = open(sys.argv[1]).read().strip()
lines = t.splitlines()
if len(lines[0]) > 110:
    first = lines[0]
    cut = first.find(". ")
    subj, rest = (first[:cut], first[cut + 2:]) if 0 < cut < 200 else (first[:100], first[100:])
    body = "\n".join([rest] + lines[1:]).strip()
    t = subj.rstrip(".") + "\n\n" + "\n\n".join(textwrap.fill(p, 92) for p in body.split("\n\n"))
print(t)
PY
git -C /repo add -A && git -C /repo commit -q -F /tmp/fixmsg.$$ && rm -f /tmp/fixmsg.$$
echo "applied $1 -> $(git -C /repo rev-parse --short HEAD): $(git -C /repo log -1 --format=%s | cut -c1-120)"
