#!/bin/bash
# tools/final_runs.sh  — evidence from seed 0 on /repo for every property (quick tier), then MANIFEST + DESIGN tables
HERE="$(cd "$(dirname "${BASH_SOURCE[0]}")/.." && pwd)"; cd "$HERE"
rc=0
for i in $(seq -w 1 20); do
  out=$(VERIF_SEED=0 ./check C$i --tier quick 2>&1); r=$?
  echo "$out" | grep -v "^  mech\|^KNOWN-FINDING" | tail -1 | cut -c1-200; echo "   exit=$r"
  [ $r -ne 0 ] && rc=1
done
/venv/bin/python tools/gen_manifest.py | tail -2
/venv/bin/python tools/gen_tables.py | tail -1
exit $rc
