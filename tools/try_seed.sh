#!/bin/bash
# tools/try_seed.sh <Cxx> <dir with patch.diff demo.py> [--tier quick|thorough] [--skip-tests]
# Confirms a seeded change on a scratch copy of /repo (demo passes without, fails with; repo tests pass with it)
# and runs the property's check against it.  Prints one summary line.
set -u
HERE="$(cd "$(dirname "${BASH_SOURCE[0]}")/.." && pwd)"
P="$1"; D="$(realpath "$2")"; shift 2
TIER=quick; SKIPT=0
while [ $# -gt 0 ]; do case "$1" in --tier) TIER="$2"; shift 2;; --skip-tests) SKIPT=1; shift;; *) shift;; esac; done
SCR="$(mktemp -d /tmp/vf-seed-XXXXXX)"; trap 'rm -rf "$SCR"' EXIT
rsync -a --exclude '__pycache__' --exclude '.git' /repo/src /repo/tests /repo/pyproject.toml "$SCR/" 2>/dev/null
run_demo() { ( cd "$SCR" && PYTHONPATH="$SCR/src" MPLBACKEND=Agg timeout 900 /venv/bin/python "$D/demo.py" >"$SCR/demo.out" 2>&1 ); echo $?; }
R0=$(run_demo)
( cd "$SCR" && patch -p1 -s --no-backup-if-mismatch < "$D/patch.diff" ) || { echo "SEED $P $(basename "$D"): PATCH-FAILED"; exit 2; }
R1=$(run_demo)
if [ $SKIPT -eq 0 ]; then
  T=$( cd "$SCR" && PYTHONPATH="$SCR/src" /venv/bin/python -m pytest -q -p no:cacheprovider tests 2>&1 | tail -1 )
else T="skipped"; fi
OUT="$(cd "$HERE" && VERIF_REPO="$SCR" VERIF_NO_EVIDENCE=1 ./check "$P" --tier "$TIER" 2>&1)"; RC=$?
echo "SEED $P $(basename "$D"): demo_clean=$R0 demo_patched=$R1 tests=[$T] check_rc=$RC ($( [ $RC -eq 1 ] && echo DETECTED || ( [ $RC -eq 0 ] && echo MISSED || echo INCONCLUSIVE ) ))"
echo "$OUT" | grep -E "^(VIOLATION|INCONCLUSIVE|  mechanism|violations by)" | head -5
