#!/bin/bash
# tools/collect_seeds.sh <Cxx>  — copies /tmp/seedwork-Cxx/out/* to seeded/Cxx-i, tries each, removes the worktree
HERE="$(cd "$(dirname "${BASH_SOURCE[0]}")/.." && pwd)"; P="$1"; shift; OFF="${SEED_OFFSET:-0}"
NEW=""; for d in /tmp/seedwork-$P/out/*/; do i=$(( $(basename "$d") + OFF )); mkdir -p "$HERE/seeded/$P-$i"; cp "$d"/{patch.diff,demo.py,meta.json} "$HERE/seeded/$P-$i/" 2>/dev/null; NEW="$NEW $HERE/seeded/$P-$i"; done
for d in $NEW; do "$HERE/tools/try_seed.sh" "$P" "$d" "$@"; done
git -C /repo worktree remove --force /tmp/seed/$P 2>/dev/null; rm -rf /tmp/seedwork-$P
