#!/bin/bash
# tools/collect_seeds.sh <Cxx>  — copies /tmp/seedwork-Cxx/out/* to seeded/Cxx-i, tries each, removes the worktree
HERE="$(cd "$(dirname "${BASH_SOURCE[0]}")/.." && pwd)"; P="$1"; shift
for d in /tmp/seedwork-$P/out/*/; do i=$(basename "$d"); mkdir -p "$HERE/seeded/$P-$i"; cp "$d"/{patch.diff,demo.py,meta.json} "$HERE/seeded/$P-$i/" 2>/dev/null; done
for d in "$HERE"/seeded/$P-*/; do "$HERE/tools/try_seed.sh" "$P" "$d" "$@"; done
git -C /repo worktree remove --force /tmp/seed/$P 2>/dev/null; rm -rf /tmp/seedwork-$P
