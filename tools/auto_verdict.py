#!/venv/bin/python
"""tools/auto_verdict.py <round> <collect-log>...  — for seeds the then-current check DETECTED (tools/collect_seeds.sh log), record the
verdict with the mechanisms that fired; seeds that were missed are left for a hand-written verdict after strengthening."""
import json, os, re, sys
HERE = os.path.dirname(os.path.dirname(os.path.abspath(__file__)))
rnd = int(sys.argv[1])
for log in sys.argv[2:]:
    lines = open(log).read().splitlines()
    for i, l in enumerate(lines):
        m = re.match(r"SEED (C\d\d) (C\d\d-\d+): .*\((DETECTED|MISSED|INCONCLUSIVE)\)", l)
        if not m:
            continue
        pid, sid, res = m.groups()
        p = os.path.join(HERE, "seeded", sid, "meta.json")
        meta = json.load(open(p))
        if res != "DETECTED":
            print(sid, res, "(left for a hand-written verdict)" if "verif" not in meta else "(already recorded)")
            continue
        if "verif" in meta:
            continue
        mechs = []
        for l2 in lines[i + 1:i + 3]:
            if l2.startswith("violations by"):
                for part in l2.split(":", 1)[1].split(";"):
                    name = part.strip().split("/")[0].split("=")[0].strip()
                    if name and name not in mechs:
                        mechs.append(name)
        meta["verif"] = {"round": rnd, "confirmed": "demo exits 0 on the unchanged tree and 1 with the patch; repository tests 176 passed with the patch (tools/try_seed.sh on a scratch copy of /repo)",
                         "what": meta.get("summary", "")[:240], "check": pid, "verdict": "DETECTED by the check as it stood when the change arrived (quick tier) -> " + ", ".join(mechs[:5]),
                         "ran": "tools/try_seed.sh %s seeded/%s" % (pid, sid)}
        json.dump(meta, open(p, "w"), indent=1)
        print(sid, "recorded:", ", ".join(mechs[:5]))
