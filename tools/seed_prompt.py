#!/venv/bin/python
"""tools/seed_prompt.py <Cxx> <worktree> [count] -> prints the seeder prompt for that property (only the property text, nothing from /verif's machinery)."""
import json, os, sys
HERE = os.path.dirname(os.path.dirname(os.path.abspath(__file__)))
pid, wt = sys.argv[1], sys.argv[2]
count = sys.argv[3] if len(sys.argv) > 3 else "3"
for l in open(os.path.join(HERE, "properties.jsonl")):
    p = json.loads(l)
    if p["id"] == pid:
        break
t = open(os.path.join(HERE, "tools", os.environ.get("SEED_TEMPLATE", "SEEDER_PROMPT.txt"))).read()
t = t.replace("WORKTREE", wt).replace("TITLE", p["title"]).replace("STATEMENT", p["statement"]).replace("QUANT", p["quantifier"]["text"])
t = t.replace("FILES", ", ".join(p["anchors"]["files"])).replace("COUNT", count).replace("ID", pid)
print(t)
