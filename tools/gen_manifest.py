#!/venv/bin/python
"""Regenerates MANIFEST.json from the table below (run from /verif): tools/gen_manifest.py"""
import json, os, sys

HERE = os.path.dirname(os.path.dirname(os.path.abspath(__file__)))
sys.path.insert(0, HERE)

# property -> (category, technique, level text, level note, design ref)
CLAIMS = {
    "C20": ("exploration", "runtime monitor: order/range/mask predicates on real CustomNormalization outputs over a seeded dtype x interval x stretch matrix",
            "Held on every monitored execution of a seeded matrix (12 dtypes x 9 interval configurations x 4 stretches x value families incl. NaN/inf/ties/wide ranges, all presets, 6 stretch classes with inverses); range, monotonicity, limit and masking predicates are evaluated on the data, on the limits and on a probe grid reaching beyond the limits.",
            "Finite sampling; float32 inputs judged at 2e-4 (working precision), others at 1e-9; limits judged only when vmin<vmax.", "DESIGN.md §3 C20"),
}
CLAIMS["C02"] = ("exploration", "differential runtime oracle: independent float64 multislice/mixed-state simulator vs the library's own preprocessing + forward pipeline (public reconstruct() with lr=0 and the explicit forward chain with autograd)",
    "Held on every monitored scene: data simulated by an independent numpy simulator from unit-amplitude truths are reproduced by the library's pipeline at the truth (all four losses ~ rounding noise, 1e-6..1e-3 of the loss at a 5% perturbation; predicted patterns equal simulated ones to 2e-5; l2 gradients at the truth <= 1e-3 of those at the perturbations) over object types, 1-4 slices, 1-3 modes, odd/even/non-square ROI, fractional raster scans, padding, batch sizes, detector masks, no_shift (incl. the learned-descan target path) and constant descan with integer detector rolls.",
    "Finite sampling of scenes; constant descan judged only on scenes whose mean centre of mass is an integer (premise measured by the harness); float32 pipeline vs float64 reference, thresholds >= 18x above the measured noise floor and >= 1e3x below the effect of the seeded mutants.", "DESIGN.md §3 C02")
ALL = ["C%02d" % i for i in range(1, 21)]
PENDING_REASON = "check not built yet (work in progress; runtime-monitoring design exists in DESIGN.md §3)"

checks = []
for pid in ALL:
    if pid not in CLAIMS:
        continue
    cat, tech, text, note, ref = CLAIMS[pid]
    checks.append({
        "property_id": pid,
        "quick_cmd": "./check %s --tier quick" % pid,
        "thorough_cmd": "./check %s --tier thorough" % pid,
        "evidence_file": "evidence/%s.json" % pid,
        "replay_cmd_template": "./check %s --replay {path}" % pid,
        "engine": "vf",
        "level_claimed": {"category": cat, "text": text, "design_ref": ref},
        "level_note": note,
        "technique": tech,
    })
manifest = {
    "version": 1,
    "setup_cmd": "/venv/bin/python -c \"import sys, numpy, torch, zarr; assert sys.version_info >= (3, 12)\"",
    "hooks": {
        "guard": "QUANTEM_VERIF",
        "enable": "none needed: all instrumentation is attached from the harness (method wrappers, sys.monitoring); checks import /repo/src via PYTHONPATH",
        "baseline_off_cmd": "cd /repo && env -u QUANTEM_VERIF /venv/bin/python -m pytest -ra -q -p no:cacheprovider --timeout=900 --continue-on-collection-errors",
        "source_commits": [],
        "add_only": True,
    },
    "engines": [{"name": "vf", "path": "vf/", "serves_properties": [c["property_id"] for c in checks],
                 "kind_free_text": "runtime monitoring: seeded hostile workloads on the real code in worker subprocesses; oracles = reference models, postcondition wrappers, metamorphic/differential relations, sys.monitoring failpoints"}],
    "checks": checks,
    "not_applicable": [{"property_id": p, "reason": PENDING_REASON} for p in ALL if p not in CLAIMS],
    "notes": "Exit codes: 0 held / 1 VIOLATION / 2 INCONCLUSIVE (never on a healthy unchanged tree). Known findings: known_findings.json. Mutant self-tests: selftest/.",
}
with open(os.path.join(HERE, "MANIFEST.json"), "w") as f:
    json.dump(manifest, f, indent=1)
    f.write("\n")
try:
    import jsonschema
    jsonschema.validate(manifest, json.load(open("/root/.vp/MANIFEST.schema.json")))
    for c in checks:
        ev = os.path.join(HERE, c["evidence_file"])
        if os.path.exists(ev):
            jsonschema.validate(json.load(open(ev)), json.load(open("/root/.vp/EVIDENCE.schema.json")))
    print("MANIFEST.json valid; %d checks claimed" % len(checks))
except ImportError:
    print("jsonschema not available; wrote MANIFEST.json unvalidated")
