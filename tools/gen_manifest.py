#!/venv/bin/python
"""Regenerates MANIFEST.json (run from /verif): tools/gen_manifest.py
READY lists the properties whose checks are built, silent on the repaired tree and mutant-tested; the per-check texts are
taken from the property modules (RULE, ASSUMPTIONS) plus the technique table below."""
import importlib, json, os, sys

HERE = os.path.dirname(os.path.dirname(os.path.abspath(__file__)))
sys.path.insert(0, HERE)

READY = ["C01", "C02", "C03", "C04", "C05", "C06", "C07", "C08", "C09", "C10", "C11", "C12", "C13", "C14", "C15", "C16", "C17", "C18", "C19", "C20"]

TECHNIQUE = {
    "C01": "runtime monitor: structural deep-equality oracle over save/load round trips of seeded object graphs (kind matrix + random graphs, both stores, all compression levels)",
    "C02": "differential runtime oracle: independent float64 multislice/mixed-state simulator vs the library's own preprocessing + forward pipeline (public reconstruct() with lr=0 and the explicit chain with autograd)",
    "C03": "history + executable reference model in lock-step, class invariants at wrappers on every public Dataset method, in-place/copy twin runs, alias re-hashing",
    "C04": "metamorphic runtime oracles (batch-size invariance, linearity, sub-mask recombination) and closed-form parallax references over real DirectPtychography.reconstruct runs",
    "C05": "twin-run runtime oracle: original vs saved+reloaded / cloned / forced-fallback-cloned reconstructions continued with identical calls",
    "C06": "differential runtime oracle: float64/exact-integer block reductions, explicit-matrix DFT and analytic conservation laws vs Dataset.bin/fourier_resample/pad/crop",
    "C07": "differential runtime oracle against the installed scikit-image radon / iradon / _get_fourier_filter, plus batch, linearity and 0-degree identities",
    "C08": "fault injection: sys.monitoring LINE failpoints at every executed serializer statement + raising I/O primitives + natural failures; filesystem-snapshot and load() oracle",
    "C09": "offline checker over recorded batcher yield logs, in-situ conservation monitor (wrappers inside real reconstruct runs), batch-invariance and bitwise determinism twins",
    "C10": "postcondition monitors on hostile raw tensors and in situ (wrappers on the constraint functions while reconstruct() runs with absurd learning rates)",
    "C11": "history + executable reference model in lock-step, class invariant after every public Vector/_FieldView call, shared-state (aliasing) detector",
    "C12": "runtime evaluation of the real functions on float64 tensors vs an independent numpy series and torch autograd; one-hot enumeration of all 25+25 labels; fit round trips",
    "C13": "ground truth by construction (exact circular Fourier translation of band-limited images) vs the numpy and torch shift estimators",
    "C14": "runtime monitor: expected object = in-memory pruning of the no-skip round trip, compared by strict deep equality; save-time vs load-time vs stored skip lists",
    "C15": "closed-form geometry oracle for the resampling coordinates, weight-sum conservation, and fixed-point monitor on identical stacks",
    "C16": "algebraic-identity monitors (energy, additivity, adjointness, projection idempotence) on the real operators, directly and in situ through wrappers during reconstruct()",
    "C17": "oracle = generating field with independent periodic flood-fill component labelling; integrality of (out-in-c)/2pi for arbitrary input",
    "C18": "float64 weighted-mean oracle, batch-size/path/model agreement, exact-surface fits, integer-origin roll identity",
    "C19": "history + abstract reference model (spelling-normalised nested map with defaults stack) in lock-step over exhaustive and random histories",
    "C20": "order/range/mask predicates on real CustomNormalization outputs over a seeded dtype x interval x stretch matrix, plus an in-situ monitor on the normalisation built by the plotting entry points",
}
ALL = ["C%02d" % i for i in range(1, 21)]
PENDING_REASON = "check not finished yet (module under construction; runtime-monitoring design in DESIGN.md section 3) - not claimed until it is silent on the repaired tree and mutant-tested"

checks = []
for pid in ALL:
    if pid not in READY:
        continue
    mod = importlib.import_module("vf.props." + pid.lower())
    level = getattr(mod, "LEVEL", "exploration")
    rule = " ".join(str(getattr(mod, "RULE", "")).split())
    text = getattr(mod, "LEVEL_TEXT", None) or (
        "Held (no violation outside known_findings.json) on every monitored execution of the real code in this run; reach comes from: " + rule[:900])
    note = "Finite sampling / bounded enumeration (runtime monitoring decides only the executions produced). " + " | ".join(getattr(mod, "ASSUMPTIONS", []))[:1200]
    checks.append({
        "property_id": pid,
        "quick_cmd": "./check %s --tier quick" % pid,
        "thorough_cmd": "./check %s --tier thorough" % pid,
        "evidence_file": "evidence/%s.json" % pid,
        "replay_cmd_template": "./check %s --replay {path}" % pid,
        "engine": "vf",
        "level_claimed": {"category": level, "text": text, "design_ref": "DESIGN.md section 3 %s and section 8" % pid},
        "level_note": note,
        "technique": TECHNIQUE[pid],
    })
manifest = {
    "version": 1,
    "setup_cmd": "/venv/bin/python -c \"import sys, numpy, torch, zarr; assert sys.version_info >= (3, 12)\"",
    "hooks": {
        "guard": "QUANTEM_VERIF",
        "enable": "none needed: all instrumentation is attached from the harness (method wrappers, sys.monitoring); checks import /repo/src via PYTHONPATH",
        "baseline_off_cmd": "cd /repo && env -u QUANTEM_VERIF /venv/bin/python -m pytest -ra -q -p no:cacheprovider --timeout=900 --continue-on-collection-errors",
        "source_commits": [],
        "add_only": True,
    },
    "engines": [{"name": "vf", "path": "vf/", "serves_properties": [c["property_id"] for c in checks],
                 "kind_free_text": "runtime monitoring: seeded hostile workloads on the real code in worker subprocesses; oracles = reference models, postcondition wrappers, metamorphic/differential relations, sys.monitoring failpoints"}],
    "checks": checks,
    "not_applicable": [{"property_id": p, "reason": PENDING_REASON} for p in ALL if p not in READY],
    "notes": "Exit codes: 0 held / 1 VIOLATION / 2 INCONCLUSIVE (never on a healthy unchanged tree). Known findings: known_findings.json. Mutant self-tests: selftest/. Seeded changes: seeded/.",
}
with open(os.path.join(HERE, "MANIFEST.json"), "w") as f:
    json.dump(manifest, f, indent=1)
    f.write("\n")
try:
    import jsonschema
    jsonschema.validate(manifest, json.load(open("/root/.vp/MANIFEST.schema.json")))
    bad = []
    for c in checks:
        ev = os.path.join(HERE, c["evidence_file"])
        if os.path.exists(ev):
            try:
                jsonschema.validate(json.load(open(ev)), json.load(open("/root/.vp/EVIDENCE.schema.json")))
            except Exception as e:  # noqa: BLE001
                bad.append((c["property_id"], str(e)[:200]))
        else:
            bad.append((c["property_id"], "no evidence file"))
    print("MANIFEST.json valid; %d checks claimed; evidence problems: %s" % (len(checks), bad or "none"))
except ImportError:
    print("jsonschema not available; wrote MANIFEST.json unvalidated")
