#!/venv/bin/python
"""tools/mkmutant.py <Cxx> <name> <repo-relative file> <old> <new> [count]
Writes selftest/<Cxx>/<name>.diff replacing `old` by `new` (first occurrence, or `count`-th 1-based) in the file as it is in $VERIF_REPO (default /repo)."""
import difflib, os, sys

HERE = os.path.dirname(os.path.dirname(os.path.abspath(__file__)))
prop, name, rel, old, new = sys.argv[1:6]
nth = int(sys.argv[6]) if len(sys.argv) > 6 else 1
repo = os.environ.get("VERIF_REPO", "/repo")
src = open(os.path.join(repo, rel)).read()
old = old.encode().decode("unicode_escape") if "\\n" in old else old
new = new.encode().decode("unicode_escape") if "\\n" in new else new
pos = -1
for _ in range(nth):
    pos = src.find(old, pos + 1)
    if pos < 0:
        sys.exit("pattern not found (%s): %r" % (rel, old))
mut = src[:pos] + new + src[pos + len(old):]
diff = "".join(difflib.unified_diff(src.splitlines(True), mut.splitlines(True), "a/" + rel, "b/" + rel))
os.makedirs(os.path.join(HERE, "selftest", prop), exist_ok=True)
out = os.path.join(HERE, "selftest", prop, name + ".diff")
open(out, "w").write(diff)
print("wrote", out, "(%d changed lines)" % sum(1 for l in diff.splitlines() if l[:1] in "+-" and l[:3] not in ("+++", "---")))
