#!/bin/bash
# selftest/run_all.sh <Cxx> [jobs]  — runs every mutant of a property (in parallel), prints a summary line per mutant
HERE="$(cd "$(dirname "${BASH_SOURCE[0]}")/.." && pwd)"
P="$1"; J="${2:-3}"
ls "$HERE"/selftest/$P/*.diff | xargs -P "$J" -I{} bash -c "VERIF_WORKERS=${VERIF_WORKERS:-5} $HERE/selftest/run.sh $P {} 2>&1 | tail -1"
