#!/bin/bash
# selftest/run.sh <Cxx> <patch.diff> [--tier quick|thorough]
# Applies a mutant patch (paths relative to the repository root, as produced by `git diff`) to a
# scratch copy of /repo/src, runs the check against it and expects a VIOLATION (exit 1).
# Exit 0 = mutant detected, 1 = mutant NOT detected, 2 = patch did not apply / check inconclusive.
set -u
HERE="$(cd "$(dirname "${BASH_SOURCE[0]}")/.." && pwd)"
PROP="$1"; PATCH="$(realpath "$2")"; shift 2
SCR="$(mktemp -d /tmp/vf-mutant-XXXXXX)"
trap 'rm -rf "$SCR"' EXIT
mkdir -p "$SCR/src" && rsync -a --exclude '__pycache__' "${VERIF_REPO:-/repo}/src/" "$SCR/src/"
( cd "$SCR" && patch -p1 --no-backup-if-mismatch -s < "$PATCH" ) || { echo "SELFTEST $PROP $(basename "$PATCH"): PATCH-FAILED"; exit 2; }
OUT="$(cd "$HERE" && VERIF_REPO="$SCR" VERIF_NO_EVIDENCE=1 ./check "$PROP" "$@" 2>&1)"; RC=$?
echo "$OUT" | grep -E "^(VIOLATION|INCONCLUSIVE|C[0-9]+ )" | head -4
if [ $RC -eq 1 ]; then echo "SELFTEST $PROP $(basename "$PATCH"): DETECTED"; exit 0; fi
if [ $RC -eq 0 ]; then echo "SELFTEST $PROP $(basename "$PATCH"): MISSED"; exit 1; fi
echo "SELFTEST $PROP $(basename "$PATCH"): INCONCLUSIVE rc=$RC"; echo "$OUT" | tail -5; exit 2
